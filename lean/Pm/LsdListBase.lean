import Pm.LsdList
/-! # `liblsd/list.c` at node level: the representation relation and the two node functions

`Rep l ns items`: the node-level state `l` (`Pm/LsdList.lean`) represents the plain list `items`, carried by the nodes `ns`
(in order); every registered iterator has a place `(j, g)` on that chain.  This file proves what `list_node_create` and
`list_node_destroy` do to it (every other mutation of `list.c` goes through these two).  No model definition is changed. -/
namespace Pm.LsdList
variable {α : Type}

/-- the `j`-th `next` field of the chain `ns`: `&l->head`, then `&ns[j-1]->next` -/
def fieldAt (ns : List Nat) : Nat → Ref
  | 0 => .head
  | j + 1 => match ns[j]? with | some n => .next n | none => .head

/-- no node occurs twice -/
def Inj (ns : List Nat) : Prop := ∀ (a b n : Nat), ns[a]? = some n → ns[b]? = some n → a = b

/-- the chain from `head`: node `ns[k]` holds item `items[k]` and points to `ns[k+1]` (the last one to `NULL`) -/
structure Chain (l : LList α) (ns : List Nat) (items : List α) : Prop where
  len : items.length = ns.length
  head : l.head = ns[0]?
  cell : ∀ (k n : Nat), ns[k]? = some n → l.cells[n]? = some ⟨items[k]?, ns[k + 1]?⟩
  inj : Inj ns

/-- an iterator's place: `prev` is the `j`-th field, `pos` the node that field holds (`g = false`) or the one after (`g = true`) -/
structure Place (ns : List Nat) (i : Iter) (j : Nat) (g : Bool) : Prop where
  le : j + g.toNat ≤ ns.length
  prev : i.prev = fieldAt ns j
  pos : i.pos = ns[j + g.toNat]?

/-- the representation relation -/
structure Rep (l : LList α) (ns : List Nat) (items : List α) : Prop extends Chain l ns items where
  count : l.count = ns.length
  tail : l.tail = fieldAt ns ns.length
  freeNodup : l.free.Nodup
  freeOk : ∀ p ∈ l.free, p < l.cells.size ∧ ∀ (k : Nat), ns[k]? ≠ some p
  keys : (l.iters.map (·.1)).Nodup
  place : ∀ ki ∈ l.iters, ∃ j g, Place ns ki.2 j g

/-! ## fields and loads -/

theorem fieldAt_succ (ns : List Nat) (j n : Nat) (h : ns[j]? = some n) : fieldAt ns (j + 1) = .next n := by
  simp [fieldAt, h]

theorem fieldAt_inj (ns : List Nat) (hi : Inj ns) (a b : Nat) (ha : a ≤ ns.length) (hb : b ≤ ns.length)
    (h : fieldAt ns a = fieldAt ns b) : a = b := by
  cases a with
  | zero =>
    cases b with
    | zero => rfl
    | succ b =>
      obtain ⟨n, hn⟩ : ∃ n, ns[b]? = some n := ⟨ns[b]'(by omega), by simp⟩
      rw [fieldAt_succ ns b n hn] at h; simp [fieldAt] at h
  | succ a =>
    obtain ⟨n, hn⟩ : ∃ n, ns[a]? = some n := ⟨ns[a]'(by omega), by simp⟩
    cases b with
    | zero => rw [fieldAt_succ ns a n hn] at h; simp [fieldAt] at h
    | succ b =>
      obtain ⟨m, hm⟩ : ∃ m, ns[b]? = some m := ⟨ns[b]'(by omega), by simp⟩
      rw [fieldAt_succ ns a n hn, fieldAt_succ ns b m hm] at h
      have : n = m := by simpa using h
      subst this
      rw [hi a b n hn hm]

theorem Chain.load {l : LList α} {ns : List Nat} {items : List α} (h : Chain l ns items) (j : Nat) (hj : j ≤ ns.length) :
    load l (fieldAt ns j) = some ns[j]? := by
  cases j with
  | zero => simp [fieldAt, LsdList.load, h.head]
  | succ j =>
    obtain ⟨n, hn⟩ : ∃ n, ns[j]? = some n := ⟨ns[j]'(by omega), by simp⟩
    rw [fieldAt_succ ns j n hn]
    simp [LsdList.load, h.cell j n hn]

theorem Chain.lt_size {l : LList α} {ns : List Nat} {items : List α} (h : Chain l ns items) (k n : Nat) (hn : ns[k]? = some n) :
    n < l.cells.size := by
  have := h.cell k n hn
  by_cases hlt : n < l.cells.size
  · exact hlt
  · simp [Array.getElem?_eq_none (Nat.le_of_not_lt hlt)] at this

theorem Chain.item {l : LList α} {ns : List Nat} {items : List α} (h : Chain l ns items) (k n : Nat) (hn : ns[k]? = some n) :
    ∃ d, items[k]? = some d := by
  have hk : k < ns.length := by
    rcases Nat.lt_or_ge k ns.length with h1 | h1
    · exact h1
    · simp [List.getElem?_eq_none h1] at hn
  exact ⟨items[k]'(by rw [h.len]; exact hk), by simp⟩

/-- the assertion of the node functions holds for an iterator that has a place -/
theorem Place.assert {l : LList α} {ns : List Nat} {items : List α} (h : Chain l ns items) {i : Iter} {j : Nat} {g : Bool}
    (p : Place ns i j g) : iterAssert l i = true := by
  have hj : j ≤ ns.length := by have := p.le; omega
  unfold iterAssert
  rw [p.prev, h.load j hj]
  cases g with
  | false => simp [p.pos]
  | true =>
    have hlt : j < ns.length := by have := p.le; simp at this; omega
    obtain ⟨n, hn⟩ : ∃ n, ns[j]? = some n := ⟨ns[j]'hlt, by simp⟩
    have h2 := h.load (j + 1) (by omega)
    rw [fieldAt_succ ns j n hn] at h2
    simp [hn, h2, p.pos]

/-- a place is unique -/
theorem Place.unique {ns : List Nat} (hi : Inj ns) {i : Iter} {j j' : Nat} {g g' : Bool} (p : Place ns i j g) (p' : Place ns i j' g') :
    j = j' ∧ g = g' := by
  have hj : j ≤ ns.length := by have := p.le; omega
  have hj' : j' ≤ ns.length := by have := p'.le; omega
  have e := fieldAt_inj ns hi j j' hj hj' (by rw [← p.prev, ← p'.prev])
  subst e
  refine ⟨rfl, ?_⟩
  have hp := p.pos; rw [p'.pos] at hp
  cases g <;> cases g' <;> try rfl
  · have hlt : j < ns.length := by have := p'.le; simp at this; omega
    simp at hp
    obtain ⟨n, hn⟩ : ∃ n, ns[j]? = some n := ⟨ns[j]'hlt, by simp⟩
    rw [hn] at hp
    have := hi (j + 1) j n hp hn; omega
  · have hlt : j < ns.length := by have := p.le; simp at this; omega
    simp at hp
    obtain ⟨n, hn⟩ : ∃ n, ns[j]? = some n := ⟨ns[j]'hlt, by simp⟩
    rw [hn] at hp
    have := hi (j + 1) j n hp.symm hn; omega

/-! ## insertion and removal on the chain, index by index -/

theorem Inj.insertIdx {ns : List Nat} (hi : Inj ns) (f p : Nat) (hf : f ≤ ns.length) (hp : ∀ (k : Nat), ns[k]? ≠ some p) :
    Inj (ns.insertIdx f p) := by
  intro a b n ha hb
  simp only [List.getElem?_insertIdx] at ha hb
  have := hi
  unfold Inj at this
  grind

theorem Inj.eraseIdx {ns : List Nat} (hi : Inj ns) (f : Nat) : Inj (ns.eraseIdx f) := by
  intro a b n ha hb
  simp only [List.getElem?_eraseIdx] at ha hb
  have := hi
  unfold Inj at this
  grind

theorem fieldAt_insertIdx (ns : List Nat) (f p j : Nat) (hf : f ≤ ns.length) :
    fieldAt (ns.insertIdx f p) j = if j ≤ f then fieldAt ns j else if j = f + 1 then .next p else fieldAt ns (j - 1) := by
  cases j with
  | zero => simp [fieldAt]
  | succ j =>
    rcases Nat.lt_trichotomy j f with h | h | h
    · have h1 : j + 1 ≤ f := by omega
      simp [fieldAt, List.getElem?_insertIdx, h, h1]
    · subst h
      have h1 : ¬ j + 1 ≤ j := by omega
      simp [fieldAt, List.getElem?_insertIdx, hf, h1]
    · have h1 : ¬ j + 1 ≤ f := by omega
      have h2 : ¬ j < f := by omega
      have h3 : ¬ j = f := by omega
      obtain ⟨j', rfl⟩ : ∃ j', j = j' + 1 := ⟨j - 1, by omega⟩
      simp [fieldAt, List.getElem?_insertIdx, h1, h2, h3]

theorem fieldAt_eraseIdx (ns : List Nat) (f j : Nat) :
    fieldAt (ns.eraseIdx f) j = if j ≤ f then fieldAt ns j else fieldAt ns (j + 1) := by
  cases j with
  | zero => simp [fieldAt]
  | succ j =>
    by_cases h : j < f
    · have h1 : j + 1 ≤ f := by omega
      simp [fieldAt, List.getElem?_eraseIdx, h, h1]
    · have h1 : ¬ j + 1 ≤ f := by omega
      simp [fieldAt, List.getElem?_eraseIdx, h, h1]

theorem Chain.insert {l l' : LList α} {ns : List Nat} {items : List α} (h : Chain l ns items) (f p : Nat) (x : α)
    (hf : f ≤ ns.length) (hp : ∀ (k : Nat), ns[k]? ≠ some p)
    (hcp : l'.cells[p]? = some ⟨some x, ns[f]?⟩)
    (hhead : l'.head = if f = 0 then some p else l.head)
    (hpred : ∀ n, f ≠ 0 → ns[f - 1]? = some n → l'.cells[n]? = some ⟨items[f - 1]?, some p⟩)
    (hframe : ∀ (k n : Nat), ns[k]? = some n → k + 1 ≠ f → l'.cells[n]? = l.cells[n]?) :
    Chain l' (ns.insertIdx f p) (items.insertIdx f x) := by
  have hlen := h.len
  refine ⟨by simp [List.length_insertIdx, hf, hlen], ?_, ?_, h.inj.insertIdx f p hf hp⟩
  · rw [hhead, List.getElem?_insertIdx]
    by_cases h0 : f = 0
    · subst h0; simp
    · have : 0 < f := by omega
      simp [h0, this, h.head]
  · intro k n hk
    have hc := h.cell
    simp only [List.getElem?_insertIdx] at hk ⊢
    rcases Nat.lt_trichotomy k f with hkf | hkf | hkf
    · simp only [hkf, if_true] at hk
      by_cases hk1 : k + 1 = f
      · have e : f - 1 = k := by omega
        have := hpred n (by omega) (by rw [e]; exact hk)
        rw [this, e]
        simp [hkf, hk1, hf]
      · rw [hframe k n hk hk1, hc k n hk]
        have h1 : k + 1 < f := by omega
        simp [hkf, h1]
    · subst hkf
      have h1 : ¬ k < k := by omega
      simp only [h1, if_false, if_true, hf] at hk
      have : n = p := by simpa using hk.symm
      subst this
      rw [hcp]
      have h2 : ¬ k + 1 < k := by omega
      have h4 : k ≤ items.length := by omega
      simp [h1, h2, h4]
    · have h1 : ¬ k < f := by omega
      have h2 : ¬ k = f := by omega
      simp only [h1, h2, if_false] at hk
      rw [hframe (k - 1) n hk (by omega), hc (k - 1) n hk]
      have h3 : ¬ k + 1 < f := by omega
      have h4 : ¬ k + 1 = f := by omega
      have h5 : k - 1 + 1 = k := by omega
      simp [h1, h2, h3, h4, h5]

theorem Chain.erase {l l' : LList α} {ns : List Nat} {items : List α} (h : Chain l ns items) (f : Nat)
    (hf : f < ns.length)
    (hhead : l'.head = if f = 0 then ns[1]? else l.head)
    (hpred : ∀ n, f ≠ 0 → ns[f - 1]? = some n → l'.cells[n]? = some ⟨items[f - 1]?, ns[f + 1]?⟩)
    (hframe : ∀ (k n : Nat), ns[k]? = some n → k + 1 ≠ f → k ≠ f → l'.cells[n]? = l.cells[n]?) :
    Chain l' (ns.eraseIdx f) (items.eraseIdx f) := by
  have hlen := h.len
  refine ⟨by simp [List.length_eraseIdx, hf, hlen], ?_, ?_, h.inj.eraseIdx f⟩
  · rw [hhead, List.getElem?_eraseIdx]
    by_cases h0 : f = 0
    · subst h0; simp
    · have : 0 < f := by omega
      simp [h0, this, h.head]
  · intro k n hk
    have hc := h.cell
    simp only [List.getElem?_eraseIdx] at hk ⊢
    by_cases hkf : k < f
    · simp only [hkf, if_true] at hk
      by_cases hk1 : k + 1 = f
      · have e : f - 1 = k := by omega
        have := hpred n (by omega) (by rw [e]; exact hk)
        rw [this, e]
        simp [hkf, hk1]
      · rw [hframe k n hk hk1 (by omega), hc k n hk]
        have h1 : k + 1 < f := by omega
        simp [hkf, h1]
    · simp only [hkf, if_false] at hk
      rw [hframe (k + 1) n hk (by omega) (by omega), hc (k + 1) n hk]
      have h1 : ¬ k + 1 < f := by omega
      simp [hkf, h1]

theorem Inj.idx_eq {ns : List Nat} (hi : Inj ns) (a b : Nat) (ha : a ≤ ns.length) (hb : b ≤ ns.length) (h : ns[a]? = ns[b]?) : a = b := by
  by_cases hlt : a < ns.length
  · obtain ⟨n, hn⟩ : ∃ n, ns[a]? = some n := ⟨ns[a]'hlt, by simp⟩
    exact hi a b n hn (by rw [← h]; exact hn)
  · have e : a = ns.length := by omega
    subst e
    simp at h
    omega

/-- how `list_node_create` at field `f` moves a cursor -/
def curCreate (f : Nat) (c : Nat × Bool) : Nat × Bool := (if f ≤ c.1 then c.1 + 1 else c.1, c.2)

/-- how `list_node_destroy` at field `f` moves a cursor -/
def curDestroy (f : Nat) (c : Nat × Bool) : Nat × Bool :=
  if c.1 + c.2.toNat = f ∨ c.1 = f then (f, false) else if f < c.1 then (c.1 - 1, c.2) else c

theorem Place.create {ns : List Nat} {i : Iter} {j : Nat} {g : Bool} (hi : Inj ns) (pl : Place ns i j g) (f p : Nat)
    (hf : f ≤ ns.length) :
    Place (ns.insertIdx f p) (fixCreate (fieldAt ns f) p ns[f]? i) (curCreate f (j, g)).1 (curCreate f (j, g)).2 := by
  have hle := pl.le
  have hjl : j ≤ ns.length := by omega
  have hg1 : g.toNat ≤ 1 := by cases g <;> simp
  unfold fixCreate curCreate
  by_cases hjf : j = f
  · subst hjf
    have h1 : i.prev = fieldAt ns j := pl.prev
    simp only [h1, if_true, Nat.le_refl]
    refine ⟨by simp [List.length_insertIdx, hf]; omega, ?_, ?_⟩
    · have h0 : ¬ j + 1 ≤ j := by omega
      simp [fieldAt_insertIdx ns j p (j + 1) hf, h0]
    · have h2 : ¬ j + 1 + g.toNat < j := by omega
      have h3 : ¬ j + 1 + g.toNat = j := by omega
      have h4 : j + 1 + g.toNat - 1 = j + g.toNat := by omega
      simp [List.getElem?_insertIdx, h2, h3, h4, pl.pos]
  · have h1 : ¬ i.prev = fieldAt ns f := by
      rw [pl.prev]; intro e; exact hjf (fieldAt_inj ns hi j f hjl hf e)
    simp only [h1, if_false]
    by_cases hpos : i.pos = ns[f]?
    · have e : j + g.toNat = f := hi.idx_eq _ _ hle hf (by rw [← pl.pos, hpos])
      have hg : g = true := by cases g <;> simp_all
      subst hg
      simp at e
      have h2 : ¬ f ≤ j := by omega
      simp only [hpos, if_true, h2, if_false]
      refine ⟨by simp [List.length_insertIdx, hf]; omega, ?_, ?_⟩
      · simp [fieldAt_insertIdx ns f p j hf, pl.prev]; intro; omega
      · simp [List.getElem?_insertIdx, e, hf]
    · simp only [hpos, if_false]
      have hne : j + g.toNat ≠ f := by
        intro e; apply hpos; rw [pl.pos, e]
      by_cases hfj : f ≤ j
      · simp only [hfj, if_true]
        refine ⟨by simp [List.length_insertIdx, hf]; omega, ?_, ?_⟩
        · have h2 : ¬ j + 1 ≤ f := by omega
          have h3 : ¬ j = f := hjf
          simp [fieldAt_insertIdx ns f p (j + 1) hf, h2, h3, pl.prev]
        · have h2 : ¬ j + 1 + g.toNat < f := by omega
          have h3 : ¬ j + 1 + g.toNat = f := by omega
          have h4 : j + 1 + g.toNat - 1 = j + g.toNat := by omega
          simp [List.getElem?_insertIdx, h2, h3, h4, pl.pos]
      · simp only [hfj, if_false]
        refine ⟨by simp [List.length_insertIdx, hf]; omega, ?_, ?_⟩
        · have h2 : j ≤ f := by omega
          simp [fieldAt_insertIdx ns f p j hf, h2, pl.prev]
        · have h2 : j + g.toNat < f := by omega
          simp [List.getElem?_insertIdx, h2, pl.pos]

theorem Place.destroy {ns : List Nat} {i : Iter} {j : Nat} {g : Bool} (hi : Inj ns) (pl : Place ns i j g) (f n : Nat)
    (hn : ns[f]? = some n) :
    Place (ns.eraseIdx f) (fixDestroy (fieldAt ns f) n ns[f + 1]? i) (curDestroy f (j, g)).1 (curDestroy f (j, g)).2 := by
  have hf : f < ns.length := by
    rcases Nat.lt_or_ge f ns.length with h1 | h1
    · exact h1
    · simp [List.getElem?_eq_none h1] at hn
  have hle := pl.le
  have hjl : j ≤ ns.length := by omega
  have hg1 : g.toNat ≤ 1 := by cases g <;> simp
  have hlen : (ns.eraseIdx f).length = ns.length - 1 := by simp [List.length_eraseIdx, hf]
  unfold fixDestroy curDestroy
  by_cases hpos : j + g.toNat = f
  · have h1 : i.pos = some n := by rw [pl.pos, hpos, hn]
    simp only [h1, if_true, hpos, true_or]
    refine ⟨by simp [hlen]; omega, ?_, ?_⟩
    · simp [fieldAt_eraseIdx]
    · simp [List.getElem?_eraseIdx]
  · have h1 : ¬ i.pos = some n := by
      intro e; apply hpos
      exact hi.idx_eq _ _ hle (by omega) (by rw [← pl.pos, e, hn])
    simp only [h1, if_false, hpos, false_or]
    by_cases hj1 : j = f + 1
    · subst hj1
      have h2 : i.prev = .next n := by rw [pl.prev, fieldAt_succ ns f n hn]
      have h3 : ¬ f + 1 = f := by omega
      have h4 : f < f + 1 := by omega
      simp only [h2, if_true, h3, if_false, h4]
      refine ⟨by simp [hlen]; omega, ?_, ?_⟩
      · simp [fieldAt_eraseIdx]
      · have h5 : ¬ f + g.toNat < f := by omega
        have h6 : f + g.toNat + 1 = f + 1 + g.toNat := by omega
        simp [List.getElem?_eraseIdx, h5, h6, pl.pos]
    · have h2 : ¬ i.prev = .next n := by
        rw [pl.prev, ← fieldAt_succ ns f n hn]; intro e
        exact hj1 (fieldAt_inj ns hi j (f + 1) hjl (by omega) e)
      simp only [h2, if_false]
      by_cases hjf : j = f
      · subst hjf
        have hg : g = true := by cases g <;> simp_all
        subst hg
        simp only [if_true]
        refine ⟨by simp [hlen]; omega, ?_, ?_⟩
        · simp [fieldAt_eraseIdx, pl.prev]
        · simp [List.getElem?_eraseIdx, pl.pos]
      · simp only [hjf, if_false]
        by_cases hfj : f < j
        · simp only [hfj, if_true]
          refine ⟨by simp [hlen]; omega, ?_, ?_⟩
          · have h3 : ¬ j - 1 ≤ f := by omega
            have h4 : j - 1 + 1 = j := by omega
            simp [fieldAt_eraseIdx, h3, h4, pl.prev]
          · have h3 : ¬ j - 1 + g.toNat < f := by omega
            have h4 : j - 1 + g.toNat + 1 = j + g.toNat := by omega
            simp [List.getElem?_eraseIdx, h3, h4, pl.pos]
        · simp only [hfj, if_false]
          refine ⟨by simp [hlen]; omega, ?_, ?_⟩
          · have h3 : j ≤ f := by omega
            simp [fieldAt_eraseIdx, h3, pl.prev]
          · have h3 : j + g.toNat < f := by omega
            simp [List.getElem?_eraseIdx, h3, pl.pos]
end Pm.LsdList
