import Pm.Client
import Pm.Sort2
import Pm.Dev2
/-! One pass of the daemon: `client.c` + `device.c` + `device_tcp.c`/`device_pipe.c` composed as in
    `powermand.c:_select_loop`.  Pure; the line-protocol driver is `DmMain.lean`. -/
namespace Pm.Daemon
open Pm Pm.Client
open Pm.Dev2 (Dev Action Stmt Plug Arg ExecCtx PState PResult ActErr RxCall Oracle Env CS getArgs connectDev)

def toChars (b : Bytes) : List Char := b.map fun x => Char.ofNat x.toNat
def ofChars (n : List Char) : Bytes := n.map fun c => c.toNat.toUInt8
def bstr (s : String) : Bytes := s.toUTF8.toList
def hexVal (c : Char) : UInt8 := if c.isDigit then (c.toNat - 48).toUInt8 else (c.toNat - 87).toUInt8
def parseHexL : List Char → Bytes
  | a :: b :: r => (hexVal a * 16 + hexVal b) :: parseHexL r
  | _ => []
def parseHex (s : String) : Bytes := if s == "-" then [] else parseHexL s.toList
def hexOf (bs : Bytes) : String :=
  if bs.isEmpty then "-" else
  String.ofList (bs.flatMap fun b => ["0123456789abcdef".toList[(b / 16).toNat]!, "0123456789abcdef".toList[(b % 16).toNat]!])

inductive CR where | ok (hl : Hostlist) | err | fatal
def createR (s : List Char) : CR :=
  (tokens s).foldl (fun (acc : CR) tok =>
    match acc with
    | .ok hl =>
      match splitOnFirst '[' tok with
      | (pfx, some rest) =>
        match splitOnFirst ']' rest with
        | (body, some sfx) =>
          match parseRangeList body with
          | .error _ => .err          -- range parse errors are reported, not fatal: hostlist_create returns NULL
          | .ok rs => if sfx.isEmpty then .ok (rs.foldl (fun h r => pushSpec h pfx r) hl)
                      else .ok (rs.foldl (fun h r => pushSpecSuffix h pfx sfx r) hl)
        | (_, none) => .err
      | (_, none) => if tok.contains ']' then .err else .ok (pushHost hl tok)
    | other => other) (.ok [])

structure ArgC where
  node : Name
  state : Nat      -- 0 unknown 1 off 2 on
  result : Nat     -- 0 none 1 unknown 2 success
  val : Option Bytes

structure CmdC where
  com : Com
  names : List Name          -- target list in order, duplicates kept (arglist->hl)
  pending : Nat
  error : Bool
  args : List ArgC := []
  al : Nat := 0

structure Cfg where
  plugs : List (Name × Option Name)
  has : List Nat
  nodes : Hostlist
  version : Bytes
  /-- `conf_aliases` in the order `list_find_first` walks it: alias name, and the hosts of `a->hl` in iteration order -/
  aliases : List (Name × List Name) := []

/-- `list_find_first(conf_aliases, _alias_match, host)`: the host list of the first alias called `n` -/
def aliasOf (als : List (Name × List Name)) (n : Name) : Option (List Name) := (als.find? (·.1 == n)).map (·.2)

/-- the `while ((host = hostlist_next(itr)))` loop of `conf_exp_aliases` on expanded name lists.  `hl` is the user's list,
    `newhosts` the side list.  One unit of fuel is one run of the iterator from the start: the first host that is the name
    of an alias is deleted from `hl` (`hostlist_delete_host`: its first occurrence), the alias's hosts are appended to
    `newhosts` (`hostlist_push_list`), and the iterator is reset; a run that meets no alias name ends the loop, and
    `newhosts` is appended to `hl`.  Every reset follows a deletion, so `hl.length` runs (+ the last one) suffice. -/
def expAliasesF (als : List (Name × List Name)) : Nat → List Name → List Name → List Name
  | 0, hl, newhosts => hl ++ newhosts
  | fuel + 1, hl, newhosts =>
    match hl.find? fun n => (aliasOf als n).isSome with
    | none => hl ++ newhosts
    | some host => expAliasesF als fuel (hl.erase host) (newhosts ++ (aliasOf als host).getD [])

/-- `conf_exp_aliases` -/
def expAliases (als : List (Name × List Name)) (names : List Name) : List Name := expAliasesF als names.length names []

/-- one client as `client.c` keeps it -/
structure Cli where
  id : Nat
  fd : Nat
  quit : Bool := false
  telemetry : Bool := false
  exprange : Bool := false
  cmd : Option CmdC := none
  toBuf : Bytes := []
  fromBuf : Bytes := []
  blocking : Bool := false
  fromSize : Nat := 1024         -- c->from->size: MIN_CLIENT_BUF at creation, grows up to MAX_CLIENT_BUF, never shrinks

def comIdx : Com → Nat | .on => 7 | .off => 10 | .cycle => 13 | .reset => 16 | .flash => 23 | .unflash => 25 | .status => 2 | .temp => 19 | .beacon => 21
def allOf : Nat → Option Nat | 7 => some 9 | 10 => some 12 | 13 => some 15 | 16 => some 18 | 2 => some 3 | 19 => some 20 | 21 => some 22 | _ => none
def rangedOf : Nat → Option Nat | 7 => some 8 | 10 => some 11 | 13 => some 14 | 16 => some 17 | 23 => some 24 | 25 => some 26 | _ => none
def isQuery (c : Nat) : Bool := c == 2 || c == 19 || c == 21

/-- number of actions `dev_enqueue_actions` creates on the one device -/
def enqueueCount (s : Cfg) (com : Nat) (names : List Name) : Nat :=
  let has (c : Nat) := s.has.contains c
  let hasO (o : Option Nat) := match o with | some c => has c | none => false
  if !(has com || hasO (allOf com) || hasO (rangedOf com)) then 0 else
  let tgt (p : Name × Option Name) := match p.2 with | some n => names.contains n | none => false
  let tp := s.plugs.filter tgt
  if tp.isEmpty then 0 else
  let all := s.plugs.all tgt
  if has com && tp.length == 1 then 1
  else if (all || (isQuery com && !has com)) && hasO (allOf com) then 1
  else if hasO (rangedOf com) then 1
  else if has com then tp.length else 0

def sortedRanged (names : List Name) : Option Bytes :=
  match sortHL (names.foldl pushHost []) with
  | .ok hl => some (ofChars (rangedString hl))
  | .abort => none
  | .fuel => none      -- modelling artefact (iteration bound of the sort mirror exhausted, never observed): treated like the assert

def crlf : Bytes := [13, 10]
def prompt : Bytes := bstr "powerman> "

/-- `val[strcspn(val, "\r\n")] = 0`: a device-supplied value is shown up to its first CR or LF (fix F16) -/
def firstLine (v : Bytes) : Bytes := v.takeWhile fun b => b != 13 && b != 10

/-- the reply written when the last action has reported back -/
def finalReply (exprange : Bool) (c : CmdC) : Option Bytes :=
  let entries := c.names.filterMap fun n => c.args.find? (·.node == n)
  match c.com with
  | .status | .beacon =>
    let body : Option Bytes :=
      if exprange then
        some (entries.flatMap fun a => bstr "303 " ++ ofChars a.node ++ bstr ": " ++ bstr (if a.state == 2 then "on" else if a.state == 1 then "off" else "unknown") ++ crlf)
      else do
        let unk ← sortedRanged ((entries.filter (·.state == 0)).map (·.node))
        let on ← sortedRanged ((entries.filter (·.state == 2)).map (·.node))
        let off ← sortedRanged ((entries.filter (·.state == 1)).map (·.node))
        pure (bstr "302 on:      " ++ on ++ crlf ++ bstr "302 off:     " ++ off ++ crlf ++ bstr "302 unknown: " ++ unk ++ crlf)
    body.map (· ++ (if c.error then bstr "211 Query completed with errors" else bstr "103 Query complete") ++ crlf)
  | .temp => do
    let lines := entries.flatMap fun a => match a.val with
      | some v => bstr "303 " ++ ofChars a.node ++ bstr ": " ++ firstLine v ++ crlf
      | none => []
    let missing := (entries.filter (·.val.isNone)).map (·.node)
    let tail ← if missing.isEmpty then some [] else (sortedRanged missing).map fun r => bstr "303 " ++ r ++ bstr ": unknown" ++ crlf
    pure (lines ++ tail ++ (if c.error then bstr "211 Query completed with errors" else bstr "103 Query complete") ++ crlf)
  | _ =>
    let bad := c.error || entries.any (·.result == 1)
    some ((if bad then bstr "210 Command completed with errors" else bstr "102 Command completed successfully") ++ crlf)

def stripWs (s : Bytes) : Bytes := ((s.dropWhile isSpace).reverse.dropWhile isSpace).reverse

def codeLine : Nat → Bytes
  | 201 => bstr "201 Unknown command" | 203 => bstr "203 Command too long" | 205 => bstr "205 Hostlist error: invalid range"
  | 208 => bstr "208 Command in progress" | 213 => bstr "213 Command cannot be handled by power control device(s)"
  | 101 => bstr "101 Goodbye" | n => bstr (toString n)



def psOf (n : Nat) : PState := if n == 1 then .off else if n == 2 then .on else .unknown
def prOf (n : Nat) : PResult := if n == 1 then .unknown else if n == 2 then .success else .none
def psNum : PState → Nat | .unknown => 0 | .off => 1 | .on => 2
def prNum : PResult → Nat | .none => 0 | .unknown => 1 | .success => 2
def errNum : ActErr → Nat | .success => 0 | .expfail => 1 | .abort => 2 | .connectTimeout => 3 | .loginTimeout => 4

/-- parse `count` statements in the prefix notation of the dump -/
partial def parseStmts : Nat → List String → List Stmt × List String
  | 0, toks => ([], toks)
  | n + 1, toks =>
    let (s, rest) : Stmt × List String := match toks with
      | "send" :: h :: r => (.send (parseHex h), r)
      | "expect" :: p :: r => (.expect p.toNat!, r)
      | "delay" :: u :: r => (.delay u.toNat!, r)
      | "setplugstate" :: name :: mp1 :: mp2 :: k :: r =>
        let cnt := k.toNat!
        let pairs := (List.range cnt).map fun i => (psOf (r[2*i]!).toNat!, (r[2*i+1]!).toNat!)
        (.setplugstate (if name == "null" then none else some (parseHex name)) mp1.toInt! mp2.toInt! pairs, r.drop (2 * cnt))
      | "setresult" :: mp1 :: mp2 :: k :: r =>
        let cnt := k.toNat!
        let pairs := (List.range cnt).map fun i => (prOf (r[2*i]!).toNat!, (r[2*i+1]!).toNat!)
        (.setresult mp1.toInt! mp2.toInt! pairs, r.drop (2 * cnt))
      | "foreachplug" :: k :: r => let (b, r') := parseStmts k.toNat! r; (.foreachplug b, r')
      | "foreachnode" :: k :: r => let (b, r') := parseStmts k.toNat! r; (.foreachnode b, r')
      | "ifon" :: k :: r => let (b, r') := parseStmts k.toNat! r; (.ifon b, r')
      | "ifoff" :: k :: r => let (b, r') := parseStmts k.toNat! r; (.ifoff b, r')
      | _ => (.delay 0, [])
    let (more, rest') := parseStmts n rest
    (s :: more, rest')

def mkAction (d : Dev) (com : Nat) (plugs : Option (List Plug)) (cid : Nat) (tele : Bool) (al : Nat) (uid : Nat) : Action :=
  { uid, com, exec := [{ block := (d.scripts com).getD [], pos := 0, plugs, plugItr := none, plugCopy := none, processing := false }],
    clientId := cid, telemetry := tele, errnum := .success, timeStamp := none, delayStart := 0, arglist := al }

/-- `dev_enqueue_actions` for the one device -/
def enqueue (d : Dev) (com : Nat) (targets : List Bytes) (cid : Nat) (tele : Bool) (al : Nat) : Dev × Nat :=
  let has (c : Nat) := (d.scripts c).isSome
  let implemented := has com || ((allOf com).map has).getD false || ((rangedOf com).map has).getD false
  let tp := d.plugs.filter fun p => match p.node with | some n => targets.contains n | none => false
  if !implemented || tp.isEmpty then (d, 0) else
  let all := d.plugs.all fun p => match p.node with | some n => targets.contains n | none => false
  let singlets := if has com then tp.map fun p => mkAction d com (some [p]) cid tele al 0 else []
  let acts : List Action :=
    if has com && singlets.length == 1 then singlets
    else if (all || (isQuery com && !has com)) && ((allOf com).map has).getD false then [mkAction d ((allOf com).getD 0) none cid tele al 0]
    else if ((rangedOf com).map has).getD false then [mkAction d ((rangedOf com).getD 0) (some tp) cid tele al 0]
    else singlets
  ({ d with acts := d.acts ++ acts }, acts.length)

def parseOffs (s : String) : Option (List (Int × Int)) :=
  if s == "nomatch" then none else
  some ((s.splitOn ",").map fun p => match p.splitOn ":" with
    | [a, b] => (a.toInt!, b.toInt!)
    | _ => (0, 0))



/-- the kernel's answers for one descriptor in one pass -/
structure FdEnv where
  fd : Nat
  rev : Nat
  rk : Nat
  data : Bytes
  cap : Int

inductive Sys where
  | accept (fd : Int) | close (fd : Nat) | read (fd : Nat) (n : Int) | write (fd : Nat) (b : Bytes) (err blocks : Bool)
deriving Repr

structure W where
  cfg : Cfg
  clients : List Cli
  devs : List (Bytes × Dev) := []
  specs : List (Bytes × Bytes) := []       -- device name ↦ specification name
  store : List (Nat × List Arg) := []
  nextId : Nat := 1
  nacc : Nat := 0
  nsock : Nat := 0
  npair : Nat := 0
  nfork : Nat := 0
  alNext : Nat := 1        -- arglist id 0 means "no arglist" (login and ping actions)
  sys : List Sys := []
  caps : List (Nat × Int) := []
  exited : Bool := false
  tmo : Option Nat := none
  pendingX : List RxCall := []

def capOf (w : W) (fd : Nat) : Int := (w.caps.lookup fd).getD 0
def setCap (w : W) (fd : Nat) (c : Int) : W := { w with caps := (fd, c) :: w.caps.filter (·.1 != fd) }

def handleWrite (w : W) (c : Cli) : W × Cli :=
  let c := if c.quit then { c with blocking := true } else c
  if c.toBuf.isEmpty then (w, c) else
  let cap := capOf w c.fd
  if cap < 0 then ({ w with sys := w.sys ++ [.write c.fd [] true false] }, { c with quit := true })
  else if c.blocking then
    -- the capacity is per pass: a blocking write uses it up like any other (a second `quit` line in one read flushes again)
    (setCap { w with sys := w.sys ++ [.write c.fd c.toBuf false (cap < c.toBuf.length)] } c.fd (if cap < c.toBuf.length then 0 else cap - c.toBuf.length), { c with toBuf := [] })
  else if cap == 0 then
    ({ w with sys := w.sys ++ [.write c.fd [] false false] }, { c with quit := true })
  else
    let n := min cap.toNat c.toBuf.length
    (setCap { w with sys := w.sys ++ [.write c.fd (c.toBuf.take n) false false] } c.fd (cap - n), { c with toBuf := c.toBuf.drop n })

def put (c : Cli) (b : Bytes) : Cli := { c with toBuf := c.toBuf ++ b }

def storeArgs (w : W) (al : Nat) : List Arg := (w.store.lookup al).getD []

/-- `_command_needs_device` -/
def needsDev (d : Dev) (names : List Bytes) : Bool := d.plugs.any fun p => match p.node with | some n => names.contains n | none => false
def implemented (d : Dev) (com : Nat) : Bool :=
  let has (c : Nat) := (d.scripts c).isSome
  has com || ((allOf com).map has).getD false || ((rangedOf com).map has).getD false
/-- `_command_handled_by_device`: a variant exists that `_enqueue_targeted_actions` can use for these targets
    (the `_all` variant of a non-query script only when every plug of the device is targeted) -/
def handles (d : Dev) (com : Nat) (names : List Bytes) : Bool :=
  let has (c : Nat) := (d.scripts c).isSome
  if has com || ((rangedOf com).map has).getD false then true
  else if !(((allOf com).map has).getD false) then false
  else if isQuery com then true
  else d.plugs.all fun p => match p.node with | some n => names.contains n | none => false

/-- `_create_command` (with `dev_check_actions`) + `dev_enqueue_actions` over the devices in configuration order -/
def install (w : W) (c : Cli) (com : Com) (names : List Name) : W × Cli :=
  let al := w.alNext
  let bnames := names.map ofChars
  let no213 := (w, put c (codeLine 213 ++ crlf ++ (if c.quit then [] else prompt)))
  if w.devs.any (fun (nd : Bytes × Dev) => needsDev nd.2 bnames && !handles nd.2 (comIdx com) bnames) then no213 else
  let distinct := bnames.foldl (fun acc x => if acc.contains x then acc else acc ++ [x]) []
  let args : List Arg := distinct.map fun n => { node := n, val := none, state := .unknown, result := .none }
  let (devs, total) := w.devs.foldl (fun (acc : List (Bytes × Dev) × Nat) (nd : Bytes × Dev) =>
      let (d1, n) := enqueue nd.2 (comIdx com) bnames c.id c.telemetry al
      let d1 := if n > 0 && d1.conn != 2 then { d1 with retryCount := 0 } else d1
      (acc.1 ++ [(nd.1, d1)], acc.2 + n)) ([], 0)
  if total == 0 then no213 else
  ({ w with devs := devs, store := (al, args) :: w.store, alNext := al + 1 }, { c with cmd := some { com, names, pending := total, error := false, al } })

def helpText : Bytes := bstr ("301 nodes              - query node list\r\n" ++
 "301 device [<nodes>]   - query power control device status\r\n" ++
 "301 status [<nodes>]   - query power status\r\n" ++
 "301 on <nodes>         - power on\r\n" ++
 "301 off <nodes>        - power off\r\n" ++
 "301 cycle <nodes>      - power cycle\r\n" ++
 "301 reset <nodes>      - hardware reset (if available)\r\n" ++
 "301 temp [<nodes>]     - query temperature (if available)\r\n" ++
 "301 beacon [<nodes>]   - query beacon status (if available)\r\n" ++
 "301 flash <nodes>      - set beacon to ON (if available)\r\n" ++
 "301 unflash <nodes>    - set beacon to OFF (if available)\r\n" ++
 "301 telemetry          - toggle telemetry display\r\n" ++
 "301 exprange           - toggle host range expansion\r\n" ++
 "301 help               - display help\r\n" ++
 "301 quit               - logout\r\n")

/-- `%-3.3d` for a non-negative value: at least three digits, zero filled -/
def d33 (n : Nat) : Bytes := let s := toString n; bstr (String.ofList (List.replicate (3 - s.length) '0') ++ s)

/-- `_client_query_device_reply`; `none` = the process is gone (fatal range in the raw argument, or the sort assert) -/
def deviceReply (w : W) (arg : Option Bytes) : Option Bytes :=
  let targ : Option (Option Hostlist) := match arg with
    | none => some none
    | some a => match createR (toChars a) with
      | .ok hl => some (some hl)
      | .err => some (some [])          -- hostlist_create returned NULL: no device matches
      | .fatal => none
  match targ with
  | none => none
  | some t =>
    w.devs.foldl (fun (acc : Option Bytes) (nd : Bytes × Dev) =>
      match acc with
      | none => none
      | some bytes =>
        let d := nd.2
        let hit := match t with
          | none => true
          | some hl => d.plugs.any fun p => match p.node with | some n => (find hl (toChars n)).isSome | none => false
        if !hit then some bytes else
        let nodes := d.plugs.filterMap fun p => p.node.map toChars
        match sortHL (nodes.foldl pushHost []) with
        | .abort => none
        | .fuel => none      -- modelling artefact, treated like the assert (see `sortedRanged`)
        | .ok hl =>
          some (bytes ++ bstr "304 " ++ nd.1 ++ bstr ": state=" ++ bstr (if d.conn == 2 then "connected" else if d.conn == 1 then "connecting" else "disconnected") ++
            bstr " reconnects=" ++ d33 (d.statConnects - 1) ++ bstr " actions=" ++ d33 d.statActions ++ bstr " type=" ++ ((w.specs.lookup nd.1).getD []) ++
            bstr " hosts=" ++ ofChars (rangedString hl) ++ crlf)) (some [])

/-- `CP_LINEMAX` -/
def lineMax : Nat := 131072

def parseLine (w : W) (c : Cli) (line : Bytes) : W × Cli :=
  let str := stripWs (line.takeWhile (· != 0))
  -- `if (strlen(str) >= CP_LINEMAX)`: tested first, also with a command in progress; falls through to the prompt
  if str.length ≥ lineMax then (w, put c (codeLine 203 ++ crlf ++ (if c.quit then [] else prompt))) else
  if c.cmd.isSome then (w, put c (codeLine 208 ++ crlf)) else
  -- `if (cmd == NULL && !c->client_quit)`: no prompt once the client has quit or hit EOF
  let fin (c : Cli) (b : Bytes) : W × Cli := (w, put c (b ++ (if c.quit then [] else prompt)))
  if casePrefix kwHelp str then fin c (helpText ++ bstr "103 Query complete" ++ crlf)
  else if casePrefix kwNodes str then
    -- `hostlist_sort(conf_getnodes())`: the configured list itself is sorted, and stays so
    match sortHL w.cfg.nodes with
    | .abort => ({ w with exited := true }, c)
    | .fuel => ({ w with exited := true }, c)      -- modelling artefact, treated like the assert (see `sortedRanged`)
    | .ok hl =>
      let body := if c.exprange then (expand hl).flatMap fun n => bstr "307 " ++ ofChars n ++ crlf
                  else bstr "306 " ++ ofChars (rangedString hl) ++ crlf
      ({ w with cfg := { w.cfg with nodes := hl } }, put c (body ++ bstr "103 Query complete" ++ crlf ++ (if c.quit then [] else prompt)))
  else if casePrefix kwTelemetry str then
    let c := { c with telemetry := !c.telemetry }
    fin c (bstr "104 Telemetry " ++ bstr (if c.telemetry then "ON" else "OFF") ++ crlf)
  else if casePrefix kwExprange str then
    let c := { c with exprange := !c.exprange }
    fin c (bstr "105 Hostrange expansion " ++ bstr (if c.exprange then "ON" else "OFF") ++ crlf)
  else if casePrefix kwQuit str then
    let c := put { c with quit := true } (codeLine 101 ++ crlf)
    handleWrite w c
  else
    let try1 (kw : Bytes) (k : Com) : Option (Com × Bytes) := (scan kw str).map fun a => (k, a)
    let m := (try1 kwOn .on).orElse fun _ => (try1 kwOff .off).orElse fun _ => (try1 kwCycle .cycle).orElse fun _ =>
             (try1 kwReset .reset).orElse fun _ => (try1 kwFlash .flash).orElse fun _ => (try1 kwUnflash .unflash).orElse fun _ =>
             (try1 kwStatus .status).orElse fun _ => (try1 kwTemp .temp).orElse fun _ => (try1 kwBeacon .beacon)
    match m with
    | none =>
      if casePrefix kwStatus str then install w c .status (expand w.cfg.nodes)
      else if casePrefix kwTemp str then install w c .temp (expand w.cfg.nodes)
      else if casePrefix kwBeacon str then install w c .beacon (expand w.cfg.nodes)
      else
        let devArg : Option (Option Bytes) := match scan kwDevice str with
          | some a => some (some a)
          | none => if casePrefix kwDevice str then some none else none
        match devArg with
        | none => fin c (codeLine 201 ++ crlf)
        | some a => match deviceReply w a with
          | none => ({ w with exited := true }, c)
          | some b => fin c (b ++ bstr "103 Query complete" ++ crlf)
    | some (com, arg) =>
      match createR (toChars arg) with
      | .fatal => ({ w with exited := true }, c)
      | .err => fin c (codeLine 205 ++ crlf)
      | .ok hl =>
        let names := expAliases w.cfg.aliases (expand hl)      -- `conf_exp_aliases(hl)`
        let badNames := names.filter fun n => (find w.cfg.nodes n).isNone
        if !badNames.isEmpty then
          fin c (bstr "209 No such nodes: " ++ ofChars (rangedString (badNames.foldl pushHost [])) ++ crlf)
        else install w c com names

/-- `_handle_input`, structurally recursive on fuel; every iteration consumes at least one byte of `from` -/
def handleInputF : Nat → W → Cli → W × Cli
  | 0, w, c => (w, c)
  | fuel + 1, w, c =>
    if w.exited then (w, c) else
    match c.fromBuf.idxOf? 10 with
    | none => (w, c)
    | some i =>
      let line := c.fromBuf.take (i + 1)
      let (w, c) := parseLine w { c with fromBuf := c.fromBuf.drop (i + 1) } line
      handleInputF fuel w c

def handleInput (w : W) (c : Cli) : W × Cli := handleInputF (c.fromBuf.length + 1) w c

/-- `MAX_CLIENT_BUF` -/
def cliBufMax : Nat := 1024 * 1024

/-- what `cbuf_write_from_fd(c->from, c->fd, -1, &dropped)` decides before any byte lands (`Pm.Cbuf.readPlan`):
    `(n, size', dropped)`; the kernel has nothing to hand out on an error or at end of file -/
def cliReadPlan (c : Cli) (e : FdEnv) : Nat × Nat × Nat :=
  Pm.Cbuf.readPlan c.fromSize c.fromBuf.length cliBufMax (if e.rk == 1 || e.rk == 2 then 0 else e.data.length)

/-- the capacity half of `_handle_read`, client side: the buffer is grown if it is full, the `dropped` oldest unread bytes
    give way (only a full buffer at `MAX_CLIENT_BUF` overwrites) … -/
def clipCli (c : Cli) (e : FdEnv) : Cli :=
  { c with fromSize := (cliReadPlan c e).2.1, fromBuf := c.fromBuf.drop (cliReadPlan c e).2.2 }

/-- … and the kernel's answer is cut to the `n` bytes asked for -/
def clipEnv (c : Cli) (e : FdEnv) : FdEnv := { e with data := e.data.take (cliReadPlan c e).1 }

def clipC (c : Cli) (e : Option FdEnv) : Cli := match e with | some e0 => clipCli c e0 | none => c
def clipE (c : Cli) (e : Option FdEnv) : Option FdEnv := e.map (clipEnv c)

def clientPass (w : W) (c : Cli) (e : Option FdEnv) : W × Option Cli :=
  let interest := (if c.quit then 0 else 1) ||| (if c.toBuf.isEmpty then 0 else 2)
  let rev := match e with | some e => if interest == 0 then 0 else (e.rev &&& interest) ||| (e.rev &&& 28) | none => 0
  let dead (w : W) (c : Cli) : W × Option Cli := ({ w with sys := w.sys ++ [.close c.fd] }, none)
  if rev &&& 8 != 0 || rev &&& 16 != 0 then dead w c else
  let (w, c) :=
    if rev &&& 1 != 0 || rev &&& 4 != 0 then
      -- `_handle_read`: first the capacity half (`clipC`, `clipE`), then what is done with the bytes read
      match clipE c e, clipC c e with
      | some e, c =>
        if e.rk == 1 then ({ w with sys := w.sys ++ [.read c.fd (-1)] }, { c with quit := true })
        else if e.rk == 2 then ({ w with sys := w.sys ++ [.read c.fd 0] }, { c with quit := true })
        else if e.data.isEmpty then ({ w with sys := w.sys ++ [.read c.fd (-1)] }, { c with quit := true })
        else ({ w with sys := w.sys ++ [.read c.fd e.data.length] }, { c with fromBuf := c.fromBuf ++ e.data })
      | none, c => (w, c)
    else (w, c)
  let (w, c) := if rev &&& 2 != 0 then handleWrite w c else (w, c)
  let (w, c) := handleInput w c
  if w.exited then (w, some c) else
  if c.quit && c.cmd.isNone then dead w c else (w, some c)

def cliPrePoll (w : W) : List (Nat × Nat) :=
  (900, 1) :: w.clients.filterMap fun c =>
    let f := (if c.quit then 0 else 1) ||| (if c.toBuf.isEmpty then 0 else 2)
    if f == 0 then none else some (c.fd, f)

def cliPostPoll (w : W) (acc : Nat) (envs : List FdEnv) : W :=
  let w := { w with sys := [], caps := envs.map fun (e : FdEnv) => (e.fd, e.cap) }
  let w :=
    if acc == 1 then
      let fd := 1000 + w.nacc
      let c : Cli := { id := w.nextId, fd, toBuf := bstr "001 " ++ w.cfg.version ++ crlf ++ prompt }
      { w with clients := w.clients ++ [c], nextId := w.nextId + 1, nacc := w.nacc + 1, sys := w.sys ++ [Sys.accept fd] }
    else if acc == 2 then { w with nextId := w.nextId + 1, sys := w.sys ++ [Sys.accept (-1)] }
    else w
  w.clients.foldl (fun (w : W) (c0 : Cli) =>
    if w.exited then w else
    let (w', r) := clientPass w c0 (envs.find? (·.fd == c0.fd))
    match r with
    | some c => { w' with clients := w'.clients.map fun (x : Cli) => if x.id == c.id then c else x }
    | none => { w' with clients := w'.clients.filter fun (x : Cli) => x.id != c0.id }) w

def updCli (w : W) (id : Nat) (f : Cli → Cli) : W := { w with clients := w.clients.map fun (c : Cli) => if c.id == id then f c else c }

def argC (a : Arg) : ArgC :=
  { node := toChars a.node, state := psNum a.state, result := prNum a.result, val := a.val }

/-- `_act_finish` -/
def actFinish (w : W) (id : Nat) (err : ActErr) (name : Bytes) : W × Bool :=
  match w.clients.find? (·.id == id) with
  | none => (w, false)
  | some c =>
    match c.cmd with
    | none => (w, true)                       -- assert(c->cmd != NULL)
    | some k =>
      let e := err != .success
      let text : Bytes := match err with
        | .expfail => name ++ bstr ": action timed out waiting for expected response"
        | .abort => name ++ bstr ": action aborted due to previous action timeout"
        | .connectTimeout => name ++ bstr ": connect timeout"
        | .loginTimeout => name ++ bstr ": login timeout"
        | .success => []
      let pre := if e then bstr "308 " ++ text ++ crlf else []
      let k := { k with error := k.error || e }
      if k.pending == 1 then
        match finalReply c.exprange { k with args := (storeArgs w k.al).map argC } with
        | some r => (updCli w c.id fun c => put { c with cmd := none } (pre ++ r ++ prompt), false)
        | none => (w, true)
      else (updCli w c.id fun c => put { c with cmd := some { k with pending := k.pending - 1 } } pre, false)

def applyOuts (w : W) (name : Bytes) (outs : List Pm.Dev2.Out) : W × List String :=
  outs.foldl (fun (acc : W × List String) o =>
    let (w, msgs) := acc
    match o with
    | .finish cid e => let (w, bad) := actFinish w cid e name; (w, if bad then msgs ++ ["O ABORT act_finish"] else msgs)
    | .telemetry cid t =>
      let t' := (String.fromUTF8! ⟨t.toArray⟩).replace "(dev)" ("(" ++ String.fromUTF8! ⟨name.toArray⟩ ++ ")")
      (updCli w cid fun c => put c (bstr "305 " ++ t'.toUTF8.toList ++ crlf), msgs)
    | .diag cid t => (updCli w cid fun c => put c (bstr "309 " ++ t ++ crlf), msgs)
    | .sent _ => (w, msgs)
    | .rxMismatch want got => (w, msgs ++ [s!"O RXMISMATCH want pat {want.pat} subj {hexOf want.subject} asked pat {got.1} subj {hexOf got.2}"])
    | .abortAssert site => (w, msgs ++ [s!"O ABORT {site}"])) (w, [])

def showSys (ss : List Sys) (ds : List Pm.Dev2.Sys) (dfd : Nat := 0) : List String :=
  let acc := ss.filterMap fun | .accept fd => some s!"Y accept {fd}" | _ => none
  let dother := ds.filterMap fun
    | .socket fd => some s!"Y socket {fd}" | .connect a => some s!"Y connect {a}" | .soerror e => some s!"Y soerr {e}"
    | .socketpair a b => some s!"Y socketpair {a} {b}" | .fork p => some s!"Y fork {p}" | .kill p => some s!"Y kill {p} 15" | .waitpid p => some s!"Y waitpid {p}" | _ => none
  let cl := (ss.filterMap fun | .close fd => some s!"Y close {fd}" | _ => none) ++ (ds.filterMap fun | .close fd => some s!"Y close {fd}" | _ => none)
  let ab := ds.filterMap fun | .abort site => some s!"O ABORT {site}" | _ => none
  let fds := (ss.filterMap fun | .read fd _ => some fd | .write fd _ _ _ => some fd | _ => none).foldl (fun a x => if a.contains x then a else a ++ [x]) []
  let fds := fds.mergeSort
  let rw := fds.flatMap fun fd =>
    let rd := ss.filterMap fun | .read f n => if f == fd then some s!"Y read {fd} {n}" else none | _ => none
    let ws := ss.filterMap fun | .write f b e bl => if f == fd then some (b, e, bl) else none | _ => none
    let wl := if ws.isEmpty then [] else
      [s!"Y write {fd} {hexOf (ws.flatMap (·.1))} {if ws.any (·.2.1) then "E" else "ok"}{if ws.any (·.2.2) then " BLOCKS" else ""}"]
    rd ++ wl
  let drw := (ds.filterMap fun | .read n => some s!"Y read {dfd} {n}" | _ => none) ++
    (ds.filterMap fun | .write b ok => some s!"Y write {dfd} {hexOf b} {if ok then "ok" else "E"}" | _ => none)
  acc ++ dother ++ cl ++ ab ++ rw ++ drw


def dumpLines (w : W) (tmo : Option (Option Nat)) : List String :=
  let cl := w.clients.flatMap fun c =>
    [s!"C {c.id} {c.fd} {if c.quit then 1 else 0} {if c.telemetry then 1 else 0} {if c.exprange then 1 else 0} {match c.cmd with | some k => toString k.pending | none => "-1"} {match c.cmd with | some k => (if k.error then "1" else "0") | none => "-1"} {hexOf c.toBuf} {hexOf c.fromBuf}"] ++
    (match c.cmd with
    | some k =>
      let args := storeArgs w k.al
      let cells := k.names.map fun n => match args.find? (·.node == ofChars n) with
        | some g => s!"{hexOf (ofChars n)}:{psNum g.state}:{prNum g.result}:{match g.val with | some v => hexOf v | none => "null"}"
        | none => s!"{hexOf (ofChars n)}:-1:-1:null"
      [s!"A {c.id} {comIdx k.com}" ++ String.join (cells.map (" " ++ ·))]
    | none => [])
  let dv := (w.devs.zipIdx).flatMap fun ((_, d), ix) =>
    [s!"O dev {ix} conn {d.conn} {if d.loggedIn then 1 else 0} fd {match d.fd with | some f => toString f | none => "-1"} cur {match d.cur with | some i => toString i | none => "-1"} retry {d.retryCount} telnet {d.tstate}",
     s!"O dev {ix} to {hexOf d.toBuf}",
     s!"O dev {ix} from {hexOf d.fromBuf}",
     s!"O dev {ix} queue" ++ String.join (d.acts.map fun a => s!" {a.com}:{a.clientId}")]
  let t := match tmo with
    | some (some t) => [s!"O tmo {t}"]
    | some none => ["O tmo none"]
    | none => []
  cl ++ dv ++ t ++ ["."]
def parseEnv (t : String) : FdEnv :=
  match t.splitOn ":" with
  | [fd, rev, rk, hex, cap] => { fd := fd.toNat!, rev := rev.toNat!, rk := rk.toNat!, data := parseHex hex, cap := cap.toInt! }
  | _ => { fd := 0, rev := 0, rk := 0, data := [], cap := 0 }

/-- the kernel's answers to the `connect()` (or `getsockopt(SO_ERROR)`) calls one device makes in one pass: the digits of the
    op's string in call order, **the last one repeating** (`harness/udmn.c`: `k_ans`); `n` further copies of it are enough for a
    device that makes at most `n` more calls than the string is long -/
def answers (s : List Nat) (n : Nat) : List Nat := s ++ List.replicate n (s.getLastD 0)

/-- calls of `socket()` / `connect()` / `getsockopt()` one tcp device can make in one pass: `tcp_finish_connect` walks over at
    most the addresses behind the first, a `tcp_connect` of the same pass over all of them -/
def maxCalls (d : Dev) : Nat := 2 * d.naddr + 2

def mkDevEnv (w : W) (d : Dev) (now : Nat) (con soe : List Nat) (envs : List FdEnv) : Env :=
  let e : Option FdEnv := match d.fd with | some fd => envs.find? (fun (x : FdEnv) => x.fd == fd) | none => none
  { now, revents := match e with | some e => e.rev | none => 0,
    sockets := (List.range (maxCalls d)).map (2000 + w.nsock + ·), connects := answers con (maxCalls d), soerrs := answers soe (maxCalls d),
    read := some (match e with | some e => (if e.rk == 1 then none else if e.rk == 2 then some [] else some e.data) | none => some []),
    writeOk := match e with | some e => e.cap ≥ 0 | none => true,
    wcap := match e with | some e => e.cap.toNat | none => 1 <<< 30,
    pairs := (List.range 4).map (fun i => 3000 + 2 * (w.npair + i)), pids := (List.range 4).map (5000 + w.nfork + ·) }

def countSock (ss : List Pm.Dev2.Sys) : Nat := (ss.filter fun | .socket _ => true | _ => false).length
def countPair (ss : List Pm.Dev2.Sys) : Nat := (ss.filter fun | .socketpair _ _ => true | _ => false).length
def countFork (ss : List Pm.Dev2.Sys) : Nat := (ss.filter fun | .fork _ => true | _ => false).length

def minOpt (a b : Option Nat) : Option Nat := match a, b with | some x, some y => some (min x y) | some x, none => some x | none, y => y

def updLastDev (w : W) (f : Dev → Dev) : W :=
  match w.devs.reverse with
  | (n, d) :: r => { w with devs := (r.reverse ++ [(n, f d)]) }
  | [] => w


/-- the kernel's answers for one pass: time, `accept` verdict, the answers to the `connect()` calls and to the `SO_ERROR` queries
    of each device (a digit per call, every device reads the string from its start, the last digit repeats: `answers`),
    per-descriptor events -/
structure PassIn where
  now : Nat
  acc : Nat
  con : List Nat
  soe : List Nat
  envs : List FdEnv

/-- `dev_initial_connect` -/
def initialConnect (w : W) (now : Nat) (con soe : List Nat) : W × List String :=
  let (w, lines, devs) := w.devs.foldl (fun (acc : W × List String × List (Bytes × Dev)) (nd : Bytes × Dev) =>
      let (w, lines, devs) := acc
      let env := mkDevEnv w nd.2 now con soe []
      let c := connectDev { dev := nd.2, env := env, sys := [] }
      ({ w with nsock := w.nsock + countSock c.sys, npair := w.npair + countPair c.sys, nfork := w.nfork + countFork c.sys },
       lines ++ showSys [] c.sys, devs ++ [(nd.1, c.dev)])) (w, [], [])
  ({ w with devs := devs }, lines)

structure DevAcc where
  w : W
  ylines : List String
  msgs : List String
  tmo : Option Nat
  oracle : Oracle
  devs : List (Bytes × Dev)
  dead : Bool

/-- one device's share of `dev_post_poll`, with its callbacks applied to the clients -/
def devPass (p : PassIn) (a : DevAcc) (nd : Bytes × Dev) : DevAcc :=
  if a.dead then { a with devs := a.devs ++ [nd] } else
  let d := { nd.2 with args := a.w.store }
  let env := mkDevEnv a.w d p.now p.con p.soe p.envs
  let env := match Pm.Dev2.prePoll d with
    | some (_, f) => { env with revents := (env.revents &&& f) ||| (env.revents &&& 28) }
    | none => { env with revents := 0 }
  let dfd0 := d.fd.getD 0
  let (c, o', outs, tmo) := Pm.Dev2.postPoll d env a.oracle
  let w := { a.w with store := c.dev.args, nsock := a.w.nsock + countSock c.sys, npair := a.w.npair + countPair c.sys, nfork := a.w.nfork + countFork c.sys }
  let (w', msgs) := applyOuts w nd.1 outs
  { w := w', ylines := a.ylines ++ showSys [] c.sys dfd0, msgs := a.msgs ++ msgs, tmo := minOpt a.tmo tmo, oracle := o',
    devs := a.devs ++ [(nd.1, c.dev)], dead := c.aborted || msgs.any (·.startsWith "O ABORT") }

/-- the body of `_select_loop`: what was registered for `poll`, then `cli_post_poll`, then `dev_post_poll` -/
def daemonPass (w : W) (p : PassIn) : W × List String :=
  let ints := cliPrePoll w ++ w.devs.filterMap fun (nd : Bytes × Dev) => Pm.Dev2.prePoll nd.2
  let pre := (ints.map fun (fd, f) => s!"O interest {fd} {f}") ++
    [s!"O polltmo {match w.tmo with | some t => toString (t / 1000) | none => "-1"}"]
  let w0 := cliPostPoll w p.acc p.envs
  if w0.exited then (w0, pre ++ ["EXIT"] ++ dumpLines w0 none) else
  let a0 : DevAcc := { w := w0, ylines := showSys w0.sys [], msgs := [], tmo := none, oracle := { calls := w0.pendingX }, devs := [], dead := false }
  let a := w0.devs.foldl (devPass p) a0
  let w := { a.w with devs := a.devs, pendingX := [], tmo := a.tmo }
  (w, pre ++ a.ylines ++ a.msgs ++ (if !a.oracle.calls.isEmpty then [s!"O UNUSED-RX {a.oracle.calls.length}"] else []) ++ dumpLines w (some a.tmo))

/-- what `main` does after `_select_loop` returns (`cli_fini`, `dev_fini`): every client's descriptor is closed; every device
    that is CONNECTED is disconnected (`dev_destroy` tests exactly that state: a device still CONNECTING keeps its descriptor until
    the process exits), a coprocess is sent SIGTERM and waited for -/
def teardown (w : W) : List String :=
  (w.clients.map fun c => s!"Y close {c.fd}") ++
  w.devs.flatMap fun (nd : Bytes × Dev) =>
    if nd.2.conn == 2 then
      showSys [] (Pm.Dev2.disconnectDev { dev := nd.2, env := { now := 0, revents := 0, sockets := [], connects := [], soerrs := [], read := none, writeOk := true }, sys := [] }).sys
    else []

end Pm.Daemon
