import sys, json
sys.path.insert(0, '/tmp/pf/serial/lib')
import seriallayer as s
tier = sys.argv[1] if len(sys.argv) > 1 else 'quick'
seed = int(sys.argv[2]) if len(sys.argv) > 2 else 1
L = s.SerialLayer()
r = L.run('C09', tier, seed)
print(r['evaluations'], r['distinct'], len(r['diffs']), len(r['violations']))
for d in r['diffs'][:8]: print(json.dumps({k:v for k,v in d.items() if k not in ('replay','lines')})[:1800])
for v in r['violations'][:5]: print(json.dumps({k:x for k,x in v.items() if k!='replay'})[:800])
print({k:v for k,v in r['stats'].items() if not k.startswith('accepted')})
