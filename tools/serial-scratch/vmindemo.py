import os, pty, subprocess, time, sys, termios, select, threading
vmin = int(sys.argv[1])
m, s = pty.openpty()
name = os.ttyname(s)
a = termios.tcgetattr(s); a[6][termios.VMIN] = vmin; a[6][termios.VTIME] = 0; termios.tcsetattr(s, termios.TCSANOW, a)
dev = '/tmp/vm_serial.dev'; conf = '/tmp/vm_serial.conf'
open(dev, 'w').write('''specification "vm" {
  timeout 2
  plug name { "1" }
  script login { send "hi\\n" expect "ok\\n" }
  script status_all { send "s\\n" expect "1 (on|off)\\n" setplugstate "1" $1 on="on" off="off" }
}
''')
open(conf, 'w').write('include "%s"\ndevice "d0" "vm" "%s" "9600,8n1"\nnode "n0" "d0" "1"\n' % (dev, name))
log = []
def device():
    buf = b''
    while True:
        r, _, _ = select.select([m], [], [], 6)
        if not r: return
        try: d = os.read(m, 100)
        except OSError: return
        buf += d
        while b'\n' in buf:
            l, buf = buf.split(b'\n', 1)
            log.append(l)
            if l == b'hi': os.write(m, b'ok\n')
            elif l == b's': os.write(m, b'1 on\n')
threading.Thread(target=device, daemon=True).start()
p = subprocess.Popen(['/repo/src/powerman/powermand', '-s', '-c', conf], stdin=subprocess.PIPE, stdout=subprocess.PIPE, stderr=subprocess.PIPE)
time.sleep(0.5)
p.stdin.write(b'status n0\r\n'); p.stdin.flush()
time.sleep(4)
p.stdin.write(b'quit\r\n'); p.stdin.flush()
try: out, err = p.communicate(timeout=5)
except subprocess.TimeoutExpired: p.kill(); out, err = p.communicate()
b = termios.tcgetattr(s)
print('VMIN before=%d after _serial_setup=%d; device saw %r' % (vmin, b[6][termios.VMIN] if isinstance(b[6][termios.VMIN], int) else ord(b[6][termios.VMIN]), log))
print(out.decode(errors='replace').replace('\r', '')[-400:]); print(err.decode()[-300:])
