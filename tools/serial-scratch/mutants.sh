#!/bin/bash
# each mutant: sed expression applied to a copy of device_serial.c
cd /tmp/pf/serial
declare -A M
M[m1_iflag_kept]='s/tio.c_iflag = tio.c_lflag = 0;/tio.c_lflag = 0;/'
M[m2_lflag_kept]='s/tio.c_iflag = tio.c_lflag = 0;/tio.c_iflag = 0;/'
M[m3_cs_swapped]='0,/tio.c_cflag |= CS7;/s//tio.c_cflag |= CS8;/'
M[m4_even_sets_odd]='0,/tio.c_cflag &= ~PARODD;/s//tio.c_cflag |= PARODD;/'
M[m5_stop2_clears]='s/tio.c_cflag |= CSTOPB;/tio.c_cflag \&= ~CSTOPB;/'
M[m6_baud_table]='s/{9600,  B9600}/{9600,  B19200}/'
M[m7_csize_not_cleared]='0,/tio.c_cflag &= ~CSIZE;/s//;/'
M[m8_parity_n_noop]='0,/tio.c_cflag &= ~PARENB;/s//;/'
M[m9_ospeed_missing]='s/res = cfsetospeed(&tio, baudmap\[i\].bconst);/res = 0;/'
M[m10_databits_default_ok]='s/err(false, "%s: error setting data bits to %d", devname, databits);/break;/'
for k in "${!M[@]}"; do
  cp /repo/src/powerman/device_serial.c scratch/mut.c
  sed -i "${M[$k]}" scratch/mut.c
  if cmp -s scratch/mut.c /repo/src/powerman/device_serial.c; then echo "$k: sed did not apply"; continue; fi
  cp scratch/mut.c scratch/mut_$k.c
  VERIF_SERIAL_C=/tmp/pf/serial/scratch/mut_$k.c python3 scratch/runlayer.py quick 1 2>&1 | grep -v WARN | python3 -c "
import sys
lines=sys.stdin.read().split('\n')
print('$k:', lines[0], '| first:', (lines[1] if len(lines)>1 else '')[:260])
sigs=set()
import json
for l in lines[1:]:
    if l.startswith('{\"sig\"'):
        sigs.add(json.loads(l)['sig'])
print('    predicates:', sorted(sigs))
"
done
