/************************************************************\
 * Copyright (C) 2003 The Regents of the University of California.
 * (c.f. DISCLAIMER, COPYING)
 *
 * This file is part of PowerMan, a remote power management program.
 * For details, see https://github.com/chaos/powerman.
 *
 * SPDX-License-Identifier: GPL-2.0-or-later
\************************************************************/

/*
 * Implement connect/disconnect device methods for serial devices.
 */

#if HAVE_CONFIG_H
#include "config.h"
#endif
#include <errno.h>
#include <fcntl.h>
#include <string.h>
#include <assert.h>
#include <unistd.h>
#include <stdio.h>
#include <termios.h>
#include <sys/time.h>

#include "cbuf.h"
#include "hostlist.h"
#include "list.h"
#include "parse_util.h"
#include "xpoll.h"
#include "xmalloc.h"
#include "pluglist.h"
#include "arglist.h"
#include "xregex.h"
#include "device_private.h"
#include "device_serial.h"
#include "error.h"
#include "debug.h"
#include "fdutil.h"

typedef struct {
    char *special;
    char *flags;
} SerialDev;

typedef struct {
    int baud;
    speed_t bconst;
} baudmap_t;

static baudmap_t baudmap[] = {
    {300,   B300},
    {1200,  B1200},
    {2400,  B2400},
    {4800,  B4800},
    {9600,  B9600},
    {19200, B19200},
    {38400, B38400},
#ifdef B57600
    {57600, B57600},
#endif
#ifdef B115200
    {115200,B115200},
#endif
#ifdef B230400
    {230400,B230400},
#endif
#ifdef B460800
    {460800,B460800},
#endif
};

void *serial_create(char *special, char *flags)
{
    SerialDev *ser = (SerialDev *)xmalloc(sizeof(SerialDev));

    ser->special = xstrdup(special);
    ser->flags = xstrdup(flags ? flags : "");     /* no flags: defaults */

    return (void *)ser;
}

void serial_destroy(void *data)
{
    SerialDev *ser = (SerialDev *)data;

    if (ser->special)
        xfree(ser->special);
    if (ser->flags)
        xfree(ser->flags);
    xfree(ser);
}

/* Set up serial port: 0 on success, <0 on error */
static int _serial_setup(char *devname, int fd, int baud, int databits,
        char parity, int stopbits)
{
    int res;
    struct termios tio;
    int i;
    res = tcgetattr(fd, &tio);
    if (res < 0) {
        err(true, "%s: error getting serial attributes", devname);
        return -1;
    }

    res = -1;
    for (i = 0; i < sizeof(baudmap)/sizeof(baudmap_t); i++) {
        if (baudmap[i].baud == baud) {
            if ((res = cfsetispeed(&tio, baudmap[i].bconst)) == 0)
                 res = cfsetospeed(&tio, baudmap[i].bconst);
            break;
        }
    }
    if (res < 0) {
        err(false, "%s: error setting baud rate to %d", devname, baud);
        return -1;
    }

    switch (databits) {
        case 7:
            tio.c_cflag &= ~CSIZE;
            tio.c_cflag |= CS7;
            break;
        case 8:
            tio.c_cflag &= ~CSIZE;
            tio.c_cflag |= CS8;
            break;
        default:
            err(false, "%s: error setting data bits to %d", devname, databits);
            return -1;
    }

    switch (stopbits) {
        case 1:
            tio.c_cflag &= ~CSTOPB;
            break;
        case 2:
            tio.c_cflag |= CSTOPB;
            break;
        default:
            err(false, "%s: error setting stop bits to %d", devname, stopbits);
            return -1;
    }

    switch (parity) {
        case 'n':
        case 'N':
            tio.c_cflag &= ~PARENB;
            break;
        case 'e':
        case 'E':
            tio.c_cflag |= PARENB;
            tio.c_cflag &= ~PARODD;
            break;
        case 'o':
        case 'O':
            tio.c_cflag |= PARENB;
            tio.c_cflag |= PARODD;
            break;
        default:
            err(false, "%s: error setting parity to %c", devname, parity);
            return -1;
    }

    tio.c_lflag &= ~OPOST; /* turn off post-processing of output */
    tio.c_iflag = tio.c_lflag = 0;


    if (tcsetattr(fd, TCSANOW, &tio) < 0) {
        err(true, "%s: error setting serial attributes", devname);
        return -1;
    }
    return 0;
}

/*
 * Open the special file associated with this device.
 */
bool serial_connect(Device * dev)
{
    SerialDev *ser;
    int baud = 9600, databits = 8, stopbits = 1;
    char parity = 'N';
    int res;
    int n;

    assert(dev->connect_state == DEV_NOT_CONNECTED);
    assert(dev->fd == NO_FD);

    ser = (SerialDev *)dev->data;

    dev->fd = open(ser->special, O_RDWR | O_NONBLOCK | O_NOCTTY);
    if (dev->fd < 0) {
        err(true, "_serial_connect(%s): open %s", dev->name, ser->special);
        goto out;
    }
    if (!isatty(dev->fd)) {
        err(false, "_serial_connect(%s): not a tty", dev->name);
        goto out;
    }
    /*  [lifted from conman] According to the UNIX Programming FAQ v1.37
     *    <http://www.faqs.org/faqs/unix-faq/programmer/faq/>
     *    (Section 3.6: How to Handle a Serial Port or Modem),
     *    systems seem to differ as to whether a nonblocking
     *    open on a tty will affect subsequent read()s.
     *    Play it safe and be explicit!
     */
    nonblock_set(dev->fd);

    /* Conman takes an fcntl F_WRLCK on serial devices.
     * Powerman should respect conman's locks and vice-versa.
     */
    if (lockf(dev->fd, F_TLOCK, 0) < 0) {
        err(true, "_serial_connect(%s): could not lock device\n", dev->name);
        goto out;
    }

    /* parse the serial flags and set up port accordingly */
    n = sscanf(ser->flags, "%d,%d%c%d", &baud, &databits, &parity, &stopbits);
    assert(n >= 0 && n <= 4); /* 0-4 matches OK (defaults if no match) */
    res = _serial_setup(dev->name, dev->fd, baud, databits, parity, stopbits);
    if (res < 0)
        goto out;

    dev->connect_state = DEV_CONNECTED;
    dev->stat_successful_connects++;

    dbg(DBG_DEVICE, "_serial_connect(%s): opened", dev->name);
    return true;

out:
    if (dev->fd >= 0) {
        if (close(dev->fd) < 0)
            err(true, "_serial_connect(%s): close", dev->name);
        dev->fd = NO_FD;
    }
    return false;
}


/*
 * Close the special file associated with this device.
 */
void serial_disconnect(Device * dev)
{
    assert(dev->connect_state == DEV_CONNECTED);
    dbg(DBG_DEVICE, "_serial_disconnect: %s on fd %d", dev->name, dev->fd);

    /* close device if open */
    if (dev->fd >= 0) {
        if (close(dev->fd) < 0)
            err(true, "_serial_disconnect(%s): close", dev->name);
        dev->fd = NO_FD;
    }

    dbg(DBG_DEVICE, "_serial_disconnect(%s): closed", dev->name);
}

/*
 * vi:tabstop=4 shiftwidth=4 expandtab
 */
