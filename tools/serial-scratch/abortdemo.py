import os, pty, subprocess, time, sys
m, s = pty.openpty()
name = os.ttyname(s)
flags = sys.argv[1] if len(sys.argv) > 1 else None
conf = '/tmp/abort_serial.conf'
with open(conf, 'w') as f:
    f.write('include "/repo/etc/devices/apc.dev"\n')
    f.write('device "d0" "apc" "%s"%s\nnode "n0" "d0" "1"\n' % (name, (' "%s"' % flags) if flags is not None else ''))
p = subprocess.Popen(['/repo/src/powerman/powermand', '-s', '-c', conf], stdin=subprocess.PIPE, stdout=subprocess.PIPE, stderr=subprocess.PIPE)
try:
    out, err = p.communicate(b'', timeout=3)
except subprocess.TimeoutExpired:
    p.kill(); out, err = p.communicate()
    print('flags=%r: still running after 3 s (killed)' % flags)
print('flags=%r: exit status %s' % (flags, p.returncode)); print(err.decode()[-300:])
