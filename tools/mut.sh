#!/bin/bash
# usage: mut.sh <worktree> <k> <prop...> : validate seeded change k of a mutation worktree and run checks against it
# (1) apply, build, run the project's tests, run the demo (must fail); (2) run the named checks with VERIF_REPO=<worktree>;
# (3) revert, rebuild, run the demo (must pass)
WT=$1; K=$2; shift 2
OUT=$WT/_out/$K
cd $WT || exit 2
git checkout -q -- . ; git apply $OUT/patch.diff || { echo "PATCH DOES NOT APPLY"; exit 2; }
make -j8 > $WT/_out/make.log 2>&1 || { echo "BUILD FAILS"; tail -5 $WT/_out/make.log; }
TESTS=$(unshare -n sh -c 'ip link set lo up && make -j8 check' 2>&1 | grep -E '^# (PASS|FAIL|ERROR)' | paste -sd' ')
echo "tests with change: $TESTS"
DEMO=$(ls $OUT/demo.* | head -1)
run_demo() { if [[ $DEMO == *.py ]]; then PM_ROOT=$WT timeout 300 python3 $DEMO > $WT/_out/demo.log 2>&1; else PM_ROOT=$WT timeout 300 bash $DEMO > $WT/_out/demo.log 2>&1; fi; echo $?; }
echo "demo with change: exit $(run_demo)"
cd /verif
for p in "$@"; do echo "--- check $p"; VERIF_REPO=$WT timeout 900 ./check $p quick 2>&1 | grep -E 'VIOLATION|KNOWN|^OK' | head -5; done
cd $WT; git checkout -q -- . ; make -j8 > $WT/_out/make.log 2>&1
echo "demo without change: exit $(run_demo)"
