#!/usr/bin/env python3
"""mkprompt.py <Cxx> [round] : the text given to a fresh sub-agent that produces seeded changes for one property.
It contains the property (title, statement, quantifier), the scratch worktree, and the functions earlier changes for the
same property touched (so that new ones look elsewhere) - nothing about /verif's checks."""
import sys, json, re, glob, os
pid = sys.argv[1]
props = {json.loads(l)['id']: json.loads(l) for l in open('/verif/properties.jsonl')}
p = props[pid]
touched = []
for d in sorted(glob.glob('/verif/seeded/%s-*' % pid)):
    try: diff = open(os.path.join(d, 'patch.diff')).read()
    except Exception: continue
    files = re.findall(r'^\+\+\+ b/(\S+)', diff, re.M)
    funcs = re.findall(r'^@@ [^@]*@@ ?(.*)$', diff, re.M)
    touched.append('%s (%s)' % (', '.join(sorted(set(files))), '; '.join(sorted(set(f.strip()[:70] for f in funcs if f.strip())))))
tmpl = open('/verif/tools/mutation_prompt_template.txt').read()
# the template was written for C02: swap the property block and the paths
head, rest = tmpl.split('Here is a semantic property the project is supposed to satisfy:')
_, tail = rest.split('Your task:')
head = head.replace('C02', pid)
tail = tail.replace('C02', pid)
tail = tail.split('ADDITIONAL REQUIREMENT FOR THIS ROUND')[0]
extra = '''ADDITIONAL REQUIREMENT FOR THIS ROUND: other engineers have already produced changes for this property in these places:
%s
Do NOT touch those functions again and do not repeat their mechanisms.  Look for mechanisms that are far from the surface and in less travelled code: an interaction between two functions or two modules; state that is only wrong after a particular *sequence* (a reconnect during a specific statement, a second client arriving at a specific moment, a partial write followed by a disconnect, a termination signal at a particular point); behaviour that differs only for a particular *shape* of configuration or input (aliases, unused plugs, duplicate targets, zero-padded names, several devices with different script variants, hosts with several addresses, telemetry or exprange switched on, coprocess vs tcp devices, ping scripts, very long lines, buffers that wrap around or grow); or an arithmetic/boundary slip that needs a specific size.  Each of your two changes must use a different mechanism and touch a different function (preferably a different file).
''' % '\n'.join('  - ' + t for t in touched)
print(head + 'Here is a semantic property the project is supposed to satisfy:\n\n  %s: %s\n  STATEMENT: %s\n  QUANTIFIED OVER: %s\n\nYour task:' % (pid, p['title'], p['statement'], p['quantifier']['text'] if isinstance(p['quantifier'], dict) else p['quantifier']) + tail + extra)
