#!/usr/bin/env python3
"""mkprompt.py <Cxx> [round] : the text given to a fresh sub-agent that produces seeded changes for one property.
It contains the property (title, statement, quantifier), the scratch worktree, and the functions earlier changes for the
same property touched (so that new ones look elsewhere) - nothing about /verif's checks."""
import sys, json, re, glob, os
pid = sys.argv[1]
props = {json.loads(l)['id']: json.loads(l) for l in open('/verif/properties.jsonl')}
p = props[pid]
touched = []
for d in sorted(glob.glob('/verif/seeded/%s-*' % pid)):
    try: diff = open(os.path.join(d, 'patch.diff')).read()
    except Exception: continue
    files = re.findall(r'^\+\+\+ b/(\S+)', diff, re.M)
    funcs = re.findall(r'^@@ [^@]*@@ ?(.*)$', diff, re.M)
    touched.append('%s (%s)' % (', '.join(sorted(set(files))), '; '.join(sorted(set(f.strip()[:70] for f in funcs if f.strip())))))
tmpl = open('/verif/tools/mutation_prompt_template.txt').read()
# the template was written for C02: swap the property block and the paths
head, rest = tmpl.split('Here is a semantic property the project is supposed to satisfy:')
_, tail = rest.split('Your task:')
head = head.replace('C02', pid)
tail = tail.replace('C02', pid)
tail = tail.split('ADDITIONAL REQUIREMENT FOR THIS ROUND')[0]
extra = '''ADDITIONAL REQUIREMENT FOR THIS ROUND: other engineers have already produced changes for this property in these places:
%s
Do NOT touch those functions again and do not repeat their mechanisms.  Look for mechanisms that are far from the surface and in less travelled code: an interaction between two functions or two modules; state that is only wrong after a particular *sequence* (a reconnect during a specific statement, a second client arriving at a specific moment, a partial write followed by a disconnect, a termination signal at a particular point); behaviour that differs only for a particular *shape* of configuration or input (aliases, unused plugs, duplicate targets, zero-padded names, several devices with different script variants, hosts with several addresses, telemetry or exprange switched on, coprocess vs tcp devices, ping scripts, very long lines, buffers that wrap around or grow); or an arithmetic/boundary slip that needs a specific size.  Each of your two changes must use a different mechanism and touch a different function (preferably a different file).
''' % '\n'.join('  - ' + t for t in touched)
FOCUS = {
 'C01': 'src/powerman/parse_util.c (aliases), src/powerman/pluglist.c, src/powerman/arglist.c, src/powerman/client.c (_hostlist_create_validated, _create_command)',
 'C02': 'src/powerman/client.c (_act_finish, _client_query_reply/_client_power_reply, dev_check_actions path), src/powerman/powerman.c (exit status), src/powerman/arglist.c',
 'C03': 'src/powerman/arglist.c, src/powerman/client.c (status/temp/beacon reply formatting, exprange), src/libcommon/xregex.c',
 'C04': 'src/powerman/powermand.c (_select_loop), src/libcommon/xpoll.c, src/powerman/client.c (cli_post_poll, _handle_read), src/powerman/device.c (_update_timeout, _timeout, dev_post_poll)',
 'C05': 'src/powerman/device_pipe.c, src/powerman/device.c (dev_post_poll, _time_to_reconnect), src/powerman/powermand.c',
 'C06': 'src/powerman/client.c (accept path, _handle_read, _destroy_client, cli_post_poll), src/liblsd/list.c, src/libcommon/xread.c / fdutil.c',
 'C07': 'src/powerman/device_pipe.c, src/powerman/device_tcp.c (connect / finish_connect / address list), src/libcommon/xregex.c, src/libcommon/hprintf.c',
 'C08': 'src/powerman/device.c (_process_delay, _process_foreach, exec-context push/pop, _enqueue_ping), src/libcommon/hprintf.c, src/powerman/parse_tab.y (makeStmt, interpretation lists)',
 'C09': 'src/liblsd/cbuf.c (any function except cbuf_reader and cbuf_read_to_fd), src/powerman/device_pipe.c, src/powerman/client.c (_handle_write), src/powerman/device.c (_handle_read, _handle_write)',
 'C10': 'src/liblsd/list.c (iterators, list_node_create/destroy, prepend/append), src/powerman/device.c (_enqueue_ping, _act_completion order, dev_enqueue_actions)',
 'C11': 'src/powerman/client.c (_find_client, telemetry/diag routing, _destroy_client, listener/accept), src/powerman/arglist.c (reference counts), src/powerman/device.c (client_id handling)',
 'C12': 'src/powerman/device_pipe.c (reconnect of a coprocess), src/powerman/device_tcp.c, src/powerman/device.c (_time_to_reconnect table and retry_count, ping)',
 'C13': 'src/powerman/pluglist.c, src/powerman/parse_util.c (conf_addnodes, aliases, _validate_config), src/powerman/parse_tab.y (makeNode/makeAlias/makeDevice)',
 'C14': 'src/liblsd/hostlist.c (push/uniq/delete_nth/ranged_string/_get_bracketed_list/hostrange_cmp/coalesce — NOT hostlist_find, hostrange_hn_within, hostrange_prefix_cmp)',
 'C15': 'src/powerman/client.c (reply formatting, _client_printf, banner, prompt), src/powerman/client_proto.h, src/libcommon/hprintf.c, src/powerman/debug.c (dbg_memstr)',
 'C16': 'src/powerman/powerman.c (the CLI: option handling, _process_response, _expect, exit), src/powerman/libpowerman.c (_parse_response, pm_node_next, _server_recv_response)',
 'C17': 'shipped data files under etc/devices/*.dev and t/etc/*.dev, src/powerman/parse_tab.y (script-kind tokens), src/powerman/parse_lex.l',
 'C18': 'src/powerman/parse_lex.l (strings, includes, numbers), src/powerman/parse_tab.y (error productions, makeStmt), src/powerman/parse_util.c (conf_init, _validate_config)',
 'C19': 'src/redfishpower/redfishpower.c (command loop, setplugs, power_cmd_process / waiters, --test-mode), src/redfishpower/plugs.c',
 'C20': 'src/powerman/powermand.c (signal handling, exit pipe, shutdown order), src/powerman/device_pipe.c, src/powerman/client.c (cli_fini, listener), src/powerman/device.c (dev_fini/dev_destroy), src/powerman/parse_util.c (conf_fini)',
}
extra += '''FOCUS FOR THIS ROUND: place each of your two changes in one of these less-tested places (two different files if possible): %s.
''' % FOCUS.get(pid, 'anywhere not listed above')
print(head + 'Here is a semantic property the project is supposed to satisfy:\n\n  %s: %s\n  STATEMENT: %s\n  QUANTIFIED OVER: %s\n\nYour task:' % (pid, p['title'], p['statement'], p['quantifier']['text'] if isinstance(p['quantifier'], dict) else p['quantifier']) + tail + extra)
