#!/usr/bin/env python3
"""keep.py <worktree> <k> <new id> <property> <checks text> : store a confirmed seeded change under /verif/seeded/<new id>/"""
import sys, os, shutil, json, glob
wt, k, nid, prop, checks = sys.argv[1:6]
src = os.path.join(wt, '_out', k); dst = os.path.join('/verif/seeded', nid)
os.makedirs(dst, exist_ok=True)
for f in glob.glob(os.path.join(src, '*')):
    if os.path.isfile(f) and os.path.basename(f) != 'README.md': shutil.copy(f, dst)
needs = open(os.path.join(src, 'README.md')).read() if os.path.exists(os.path.join(src, 'README.md')) else ''
json.dump({"id": nid, "property": prop, "produced_by": "fresh sub-agent given only the property text and a scratch worktree", "needs": needs,
           "confirmed": {"applies": True, "builds": True, "existing_test_suite_passes": True, "demo_fails_with_change": True, "demo_passes_without": True,
                         "how": "tools/mut.sh <worktree> <k> <checks...>: git apply, make, make check (own network namespace), run the demo, run the checks with VERIF_REPO=<worktree>, git checkout, make, run the demo"},
           "checks": checks}, open(os.path.join(dst, 'meta.json'), 'w'), indent=2)
print('kept', nid, os.listdir(dst))
