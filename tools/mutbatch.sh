#!/bin/bash
# usage: mutbatch.sh "Cxx k props..." ...   (each argument one job; jobs for the same worktree run one after another, worktrees in parallel)
H=$(git -C /repo rev-parse HEAD)
JOBS=("$@")
declare -A byw
for j in "${JOBS[@]}"; do w=${j%% *}; byw[$w]+="$j;"; done
for w in "${!byw[@]}"; do
  ( git -C /tmp/mut/$w checkout -q --detach $H 2>/dev/null
    IFS=';' read -ra jobs <<< "${byw[$w]}"
    for j in "${jobs[@]}"; do [ -z "$j" ] && continue; read -ra a <<< "$j"
      /verif/tools/mut.sh /tmp/mut/${a[0]} ${a[1]} "${a[@]:2}" > /tmp/mut/${a[0]}.${a[1]}.log 2>&1; done ) &
done
wait
for j in "${JOBS[@]}"; do read -ra a <<< "$j"; echo "== ${a[0]}.${a[1]}"; grep -v "KNOWN-FINDING" /tmp/mut/${a[0]}.${a[1]}.log; done
