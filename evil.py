import socket,time,sys
s=socket.socket(); s.setsockopt(socket.SOL_SOCKET,socket.SO_RCVBUF,2048); s.connect(("127.0.0.1",19444))
for i in range(12):
    s.sendall(b"help\r\n"*1000); time.sleep(0.3)
s.sendall(b"quit\r\n"); print("evil: sent quit, not reading", flush=True); time.sleep(10)
