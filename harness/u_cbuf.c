/* real liblsd/cbuf.c behind a line protocol (one op per line, one answer per line); the Lean side is lean/CbMain.lean
   (same protocol, see there).  cbuf.c is included so that the struct fields can be printed; its read()/write() calls are
   redirected to a scripted descriptor.  Built with assertions (no NDEBUG), ASan + UBSan.

   N min max ovw | O v | W hex | F len eof hex caps.. | T len caps.. | P n | D n | L len lines | X | U
   answer: "<op> <results> | size alloc used i_in i_out i_rep got_wrap | <unread bytes i_out..i_in, hex>" */
#include <stdio.h>
#include <stdlib.h>
#include <string.h>
#include <errno.h>
#include <unistd.h>
#include <assert.h>

#define FAKE_FD 1000
static unsigned char *s_avail; static long s_len, s_pos; static long s_caps[4096]; static int s_ncaps, s_idx; static int s_eof;
static unsigned char *d_out; static long d_len, d_alloc;

static ssize_t u_read(int fd, void *buf, size_t n)
{
    if (fd != FAKE_FD) return read(fd, buf, n);
    long rem = s_len - s_pos, k = (long)n < rem ? (long)n : rem;
    if (s_idx < s_ncaps) { if (s_caps[s_idx] < k) k = s_caps[s_idx]; }
    s_idx++;
    if (k <= 0) { if (s_eof) return 0; errno = EAGAIN; return -1; }
    memcpy(buf, s_avail + s_pos, k); s_pos += k; return k;
}
static ssize_t u_write(int fd, const void *buf, size_t n)
{
    if (fd != FAKE_FD) return write(fd, buf, n);
    long k = n;
    if (s_idx < s_ncaps) { long c = s_caps[s_idx]; s_idx++; if (c <= 0) { errno = EAGAIN; return c; } if (c < k) k = c; }
    if (d_len + k > d_alloc) { d_alloc = (d_len + k) * 2 + 64; d_out = realloc(d_out, d_alloc); }
    memcpy(d_out + d_len, buf, k); d_len += k; return k;
}
#define read u_read
#define write u_write
#include "cbuf.c"
#undef read
#undef write

void lsd_fatal_error(char *file, int line, char *mesg) { fprintf(stderr, "lsd_fatal_error %s:%d %s\n", file, line, mesg); }
void *lsd_nomem_error(char *file, int line, char *mesg) { fprintf(stderr, "lsd_nomem_error %s:%d %s\n", file, line, mesg); return NULL; }

static int hv(int c) { return c >= 'a' ? c - 'a' + 10 : c >= 'A' ? c - 'A' + 10 : c - '0'; }
static long unhex(const char *s, unsigned char **out)
{
    if (s[0] == '-' ) { *out = malloc(1); return 0; }
    long n = strlen(s) / 2; unsigned char *b = malloc(n ? n : 1);
    for (long i = 0; i < n; i++) b[i] = hv(s[2 * i]) * 16 + hv(s[2 * i + 1]);
    *out = b; return n;
}
static void puthex(const unsigned char *b, long n)
{
    static const char *d = "0123456789abcdef";
    if (n <= 0) { putchar('-'); return; }
    for (long i = 0; i < n; i++) { putchar(d[b[i] >> 4]); putchar(d[b[i] & 15]); }
}
static void state(cbuf_t cb)
{
    printf(" | %d %d %d %d %d %d %d | ", cb->size, cb->alloc, cb->used, cb->i_in, cb->i_out, cb->i_rep, cb->got_wrap ? 1 : 0);
    if (cb->i_in == cb->i_out) putchar('-');
    else { static const char *d = "0123456789abcdef";
        for (int i = cb->i_out; i != cb->i_in; i = (i + 1) % (cb->size + 1)) { putchar(d[cb->data[i] >> 4]); putchar(d[cb->data[i] & 15]); } }
    putchar('\n'); fflush(stdout);
}
/* split the rest of the line into blank-separated words */
static int words(char *s, char **w, int max) { int n = 0; char *p = strtok(s, " "); while (p && n < max) { w[n++] = p; p = strtok(NULL, " "); } return n; }

int main(void)
{
    char *line = NULL; size_t cap = 0; ssize_t got; cbuf_t cb = NULL; static char *w[4200];
    while ((got = getline(&line, &cap, stdin)) > 0) {
        if (line[got - 1] == '\n') line[got - 1] = 0;
        int nw = words(line, w, 4200); if (nw == 0) { printf("bad-op\n"); continue; }
        char op = w[0][0];
        if (op == 'N' && nw == 4) {
            if (cb) cbuf_destroy(cb);
            cb = cbuf_create(atoi(w[1]), atoi(w[2]));
            if (!cb) { printf("N NULL\n"); fflush(stdout); continue; }
            int rc = cbuf_opt_set(cb, CBUF_OPT_OVERWRITE, atoi(w[3]));
            printf("N ok %d", rc); state(cb); continue;
        }
        if (!cb) { printf("no-cbuf\n"); fflush(stdout); continue; }
        if (op == 'O' && nw == 2) { int rc = cbuf_opt_set(cb, CBUF_OPT_OVERWRITE, atoi(w[1])); printf("O %d", rc); state(cb); }
        else if (op == 'W' && nw == 2) {
            unsigned char *b; long n = unhex(w[1], &b); int dropped = -7;
            int rc = cbuf_write(cb, b, n, &dropped); free(b);
            printf("W %d %d", rc, dropped); state(cb);
        }
        else if (op == 'F' && nw >= 4) {
            int len = atoi(w[1]); s_eof = atoi(w[2]); s_len = unhex(w[3], &s_avail); s_pos = 0; s_idx = 0; s_ncaps = nw - 4;
            for (int i = 0; i < s_ncaps; i++) s_caps[i] = atol(w[4 + i]);
            int dropped = -7; int rc = cbuf_write_from_fd(cb, FAKE_FD, len, &dropped);
            printf("F %d %d %ld", rc, dropped, s_pos); free(s_avail); s_avail = NULL; state(cb);
        }
        else if (op == 'T' && nw >= 2) {
            int len = atoi(w[1]); s_idx = 0; s_ncaps = nw - 2; d_len = 0;
            for (int i = 0; i < s_ncaps; i++) s_caps[i] = atol(w[2 + i]);
            int rc = cbuf_read_to_fd(cb, FAKE_FD, len);
            printf("T %d ", rc); puthex(d_out, d_len); state(cb);
        }
        else if (op == 'P' && nw == 2) {
            int n = atoi(w[1]); unsigned char *b = malloc(n > 0 ? n : 1);
            int rc = cbuf_peek(cb, b, n);
            printf("P %d ", rc); puthex(b, rc); free(b); state(cb);
        }
        else if (op == 'D' && nw == 2) { int rc = cbuf_drop(cb, atoi(w[1])); printf("D %d", rc); state(cb); }
        else if (op == 'L' && nw == 3) {
            int len = atoi(w[1]), lines = atoi(w[2]); long sz = len > 0 ? len : 0; unsigned char *b = malloc(sz);
            memset(b, 0xEE, sz);
            int rc = cbuf_read_line(cb, (char *) b, len, lines);
            long m = sz - 1; while (m >= 0 && b[m] == 0xEE) m--;
            printf("L %d ", rc);
            if (m < 0) putchar('~'); else { if (b[m] != 0) printf("UNTERMINATED "); puthex(b, m); }
            free(b); state(cb);
        }
        else if (op == 'X' && nw == 1) { cbuf_flush(cb); printf("X"); state(cb); }
        else if (op == 'U' && nw == 1) { printf("U %d %d", cbuf_used(cb), cbuf_is_empty(cb)); state(cb); }
        else { printf("bad-op\n"); fflush(stdout); }
    }
    if (cb) cbuf_destroy(cb);
    return 0;
}
