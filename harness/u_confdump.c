/* C13 correspondence back end: the real lexer, grammar, makeDevice / makeNode / makeAlias, pluglist_map,
   conf_addnodes, conf_add_alias and _validate_config read the configuration file named on the command line;
   the resulting node-to-plug map is printed in a canonical form:
     DEV <name> <specname> <plug>=<node|-> ...      per device in configuration order, plugs in the device's list order
     NODES <n1> <n2> ...                            expansion of conf_getnodes() in order
     ALIAS <name> <h1> <h2> ...                     per alias in the order of the (static) alias list
     OK
   A refused configuration makes the real code print its diagnostic on stderr and exit non-zero before anything is printed.
   usage: u_confdump <conf>      (one process per configuration: the parser has static state and exits on error) */
#define _GNU_SOURCE
#include <stdio.h>
#include <stdlib.h>
#include <string.h>
#include <stdbool.h>
#include "parse_util.c"          /* conf_aliases and alias_t are static in there */
#include "cbuf.h"
#include "xregex.h"
#include "arglist.h"
#include "device_private.h"
#include "device.h"

int main(int ac, char **av)
{
    if (ac < 2) { fprintf(stderr, "usage: u_confdump conf\n"); return 2; }
    err_init("u_confdump");
    dev_init(false);
    cli_init();
    conf_init(av[1]);

    ListIterator di = list_iterator_create(dev_getdevices());
    Device *dev;
    while ((dev = list_next(di))) {
        printf("DEV %s %s", dev->name, dev->specname);
        PlugListIterator it = pluglist_iterator_create(dev->plugs);
        Plug *p;
        while ((p = pluglist_next(it)))
            printf(" %s=%s", p->name, p->node ? p->node : "-");
        pluglist_iterator_destroy(it);
        printf("\n");
    }
    list_iterator_destroy(di);

    {
        hostlist_iterator_t hi = hostlist_iterator_create(conf_getnodes());
        char *h;
        printf("NODES");
        while ((h = hostlist_next(hi))) { printf(" %s", h); free(h); }
        hostlist_iterator_destroy(hi);
        printf("\n");
    }
    {
        ListIterator ai = list_iterator_create(conf_aliases);
        alias_t *a;
        while ((a = list_next(ai))) {
            hostlist_iterator_t hi = hostlist_iterator_create(a->hl);
            char *h;
            printf("ALIAS %s", a->name);
            while ((h = hostlist_next(hi))) { printf(" %s", h); free(h); }
            hostlist_iterator_destroy(hi);
            printf("\n");
        }
        list_iterator_destroy(ai);
    }
    printf("OK\n");
    fflush(stdout);
    return 0;
}
