/* real liblsd/hash.c behind a line protocol (one op per line, one answer per line); the Lean side is lean/LhMain.lean (same
   protocol, see there).  hash.c is included so that the table, the chains and the free list of nodes can be printed.  Built
   with assertions (no NDEBUG), ASan + UBSan.  Keys are NUL-free byte strings (hex on the wire), data are positive integers.

   N size del | I key data | F key | R key | C | D m r | E m r
   answer: "<op> <results> | count | size | free nodes | non-empty slots as slot:key=data,key=data" */
#include <stdio.h>
#include <stdlib.h>
#include <string.h>
#include <stdint.h>
#include <assert.h>

#include "hash.c"

void lsd_fatal_error(char *file, int line, char *mesg) { fprintf(stderr, "lsd_fatal_error %s:%d %s\n", file, line, mesg); }
void *lsd_nomem_error(char *file, int line, char *mesg) { fprintf(stderr, "lsd_nomem_error %s:%d %s\n", file, line, mesg); return NULL; }

#define MAXN 100000
static long dlog[MAXN]; static int ndlog;
static void del_fn(void *x) { if (ndlog < MAXN) dlog[ndlog++] = (long)(intptr_t) x; }
static void put_dlog(void) { if (ndlog == 0) { printf(" -"); return; } for (int i = 0; i < ndlog; i++) printf(" %ld", dlog[i]); }
static long key_m, key_r;
static int arg_fn(void *data, void *arg) { (void) arg; return ((long)(intptr_t) data) % key_m == key_r ? 1 : 0; }

static int hv(int c) { return c >= 'a' ? c - 'a' + 10 : c >= 'A' ? c - 'A' + 10 : c - '0'; }
static char *unhex(const char *s)
{
    if (s[0] == '-') { char *b = malloc(1); b[0] = 0; return b; }
    long n = strlen(s) / 2; char *b = malloc(n + 1);
    for (long i = 0; i < n; i++) b[i] = (char)(hv(s[2 * i]) * 16 + hv(s[2 * i + 1]));
    b[n] = 0; return b;
}
static void puthex(const char *b)
{
    static const char *d = "0123456789abcdef";
    if (!*b) { putchar('-'); return; }
    for (const unsigned char *p = (const unsigned char *) b; *p; p++) { putchar(d[*p >> 4]); putchar(d[*p & 15]); }
}
static void state(hash_t h)
{
    int nfree = 0; for (struct hash_node *f = hash_free_list; f; f = f->next) nfree++;
    printf(" | %d | %d | %d |", h->count, h->size, nfree);
    int any = 0;
    for (int i = 0; i < h->size; i++) {
        if (!h->table[i]) continue;
        any = 1; printf(" %d:", i);
        int guard = 0;
        for (struct hash_node *p = h->table[i]; p && guard < MAXN; p = p->next, guard++) {
            if (p != h->table[i]) putchar(',');
            puthex((const char *) p->hkey); printf("=%ld", (long)(intptr_t) p->data);
        }
    }
    if (!any) printf(" -");
    putchar('\n'); fflush(stdout);
}
static int words(char *s, char **w, int max) { int n = 0; char *p = strtok(s, " "); while (p && n < max) { w[n++] = p; p = strtok(NULL, " "); } return n; }
#define V(x) ((void *)(intptr_t)(x))
#define L(v) ((long)(intptr_t)(v))

int main(void)
{
    char *line = NULL; size_t cap = 0; ssize_t got; hash_t h = NULL; char *w[8];
    while ((got = getline(&line, &cap, stdin)) > 0) {
        if (line[got - 1] == '\n') line[got - 1] = 0;
        int nw = words(line, w, 8); if (nw == 0) { printf("bad-op\n"); fflush(stdout); continue; }
        char op = w[0][0]; ndlog = 0;
        if (op == 'N' && nw == 3) {
            if (h) hash_destroy(h);
            h = hash_create(atoi(w[1]), (hash_key_f) hash_key_string, (hash_cmp_f) strcmp, atoi(w[2]) ? del_fn : NULL);
            printf("N"); put_dlog(); state(h); continue;
        }
        if (!h) { printf("no-table\n"); fflush(stdout); continue; }
        if (op == 'I' && nw == 3) {
            char *k = unhex(w[1]);              /* the table keeps the key pointer: the string stays allocated */
            void *v = hash_insert(h, k, V(atol(w[2])));
            if (!v) free(k);
            printf("I %ld", L(v)); state(h);
        }
        else if (op == 'F' && nw == 2) { char *k = unhex(w[1]); printf("F %ld", L(hash_find(h, k))); free(k); state(h); }
        else if (op == 'R' && nw == 2) { char *k = unhex(w[1]); printf("R %ld", L(hash_remove(h, k))); free(k); state(h); }
        else if (op == 'C' && nw == 1) { int n = hash_count(h); int e = hash_is_empty(h); printf("C %d %d", n, e); state(h); }
        else if (op == 'D' && nw == 3) { key_m = atol(w[1]); key_r = atol(w[2]); int n = hash_delete_if(h, arg_fn, NULL); printf("D %d", n); put_dlog(); state(h); }
        else if (op == 'E' && nw == 3) { key_m = atol(w[1]); key_r = atol(w[2]); printf("E %d", hash_for_each(h, arg_fn, NULL)); state(h); }
        else { printf("bad-op\n"); fflush(stdout); }
    }
    if (h) hash_destroy(h);
    return 0;
}
