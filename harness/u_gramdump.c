/* C18 / C17 back end of the grammar layer (lib/gramlayer.py): the real configuration lexer (parse_lex.l) and grammar
   (parse_tab.y), regenerated with flex/bison from the working tree, reading one file.

     u_gramdump parse <conf>   conf_init(conf).  What the semantic actions of the grammar do is printed in the order in which
                               bison runs them, one line per completed config_item, as soon as it is complete:
                                 SPEC <name> tmo=tv:<sec>:<usec> ping=tv:<sec>:<usec> plugs=<name,name,...|~>
                                 S <script index> <statement tree>          one per script of that specification, by index
                                 ENDSPEC
                                 LISTEN <s> | TCPW <0|1> | LOGLEVEL <s>
                                 DEVICE <name> <spec> pipe|serial|tcp <target> <port|~> <flags|~>
                                 NODE <nodes> <device> <plugs|~>
                                 ALIAS <name> <hosts>
                               then `ACCEPT` when yyparse() has returned and `VALID` when conf_init() has returned.  A refused
                               file makes the real code print its diagnostic on stderr and exit non-zero; the lines of the items
                               completed before that are on stdout.  Statement trees are PreStmt trees - what makePreStmt
                               received - : expect:<s> send:<s> delay:tv:<sec>:<usec> sps:<plug|~>:<mp1>:<mp2>:<on=s,off=s,...|~>
                               srs:<mp1>:<mp2>:<success=s,...|~> fn{ … } fp{ … } ioff{ … } ion{ … }.
                               Strings are hex (`-` = empty, `~` = absent).
     u_gramdump lex <conf>     scanner_init + yylex() until 0: `T <token number> <file> <line> <value|~>` per token with the
                               scanner position right after the token, then `EOF <file> <line>`
     u_gramdump batch <mode>   one path per line on stdin; the mode runs in a forked child with stdout/stderr captured and a
                               10 s limit; `R exit=<n> sig=<n> to=<0|1> ms=<n> out=<hex> err=<hex>` per path

   parse_tab.c is #included (not linked) so that the static `device_specs` (Spec / PreStmt trees) can be printed.  The calls the
   actions make into other translation units are intercepted with -Wl,--wrap to print their arguments; they run the real
   functions, except tcp_create (getaddrinfo: the resolver is not under test) and serial_create, which only record, and
   xregex_compile (regcomp: an oracle), which does nothing. */
#define _GNU_SOURCE
#include <stdio.h>
#include <stdlib.h>
#include <string.h>
#include <signal.h>
#include <unistd.h>
#include <fcntl.h>
#include <time.h>
#include <sys/wait.h>
#include <sys/types.h>

#include "parse_tab.c"
#include "client.h"
#include "device.h"

extern FILE *yyin;
extern FILE *yyout;
extern char *yylval;
extern void conf_init(char *filename);

static void hexout(FILE *f, const char *p)
{
    if (!p) { fprintf(f, "~"); return; }
    if (!*p) { fprintf(f, "-"); return; }
    for (; *p; p++) fprintf(f, "%02x", (unsigned char)*p);
}

/* ---------------------------------------------------------------- specifications */

static void dump_prestmts(List l)
{
    ListIterator it = list_iterator_create(l); PreStmt *p;
    while ((p = list_next(it))) {
        switch (p->type) {
        case STMT_EXPECT: printf(" expect:"); hexout(stdout, p->str); break;
        case STMT_SEND: printf(" send:"); hexout(stdout, p->str); break;
        case STMT_DELAY: printf(" delay:tv:%ld:%ld", (long)p->tv.tv_sec, (long)p->tv.tv_usec); break;
        case STMT_SETPLUGSTATE: {
            printf(" sps:"); hexout(stdout, p->str); printf(":%d:%d:", p->mp1, p->mp2);
            if (!p->state_interps) printf("~");
            else {
                ListIterator ii = list_iterator_create(p->state_interps); StateInterp *si; int n = 0;
                while ((si = list_next(ii))) { printf("%s%s=", n++ ? "," : "", si->state == ST_ON ? "on" : si->state == ST_OFF ? "off" : "?"); hexout(stdout, si->str); }
                list_iterator_destroy(ii);
            }
            break; }
        case STMT_SETRESULT: {
            printf(" srs:%d:%d:", p->mp1, p->mp2);
            if (!p->result_interps) printf("~");
            else {
                ListIterator ii = list_iterator_create(p->result_interps); ResultInterp *ri; int n = 0;
                while ((ri = list_next(ii))) { printf("%s%s=", n++ ? "," : "", ri->result == RT_SUCCESS ? "success" : "?"); hexout(stdout, ri->str); }
                list_iterator_destroy(ii);
            }
            break; }
        case STMT_FOREACHNODE: printf(" fn{"); dump_prestmts(p->prestmts); printf(" }"); break;
        case STMT_FOREACHPLUG: printf(" fp{"); dump_prestmts(p->prestmts); printf(" }"); break;
        case STMT_IFOFF: printf(" ioff{"); dump_prestmts(p->prestmts); printf(" }"); break;
        case STMT_IFON: printf(" ion{"); dump_prestmts(p->prestmts); printf(" }"); break;
        default: printf(" ?type%d", (int)p->type); break;
        }
    }
    list_iterator_destroy(it);
}

static void dump_spec(Spec *s)
{
    printf("SPEC "); hexout(stdout, s->name);
    printf(" tmo=tv:%ld:%ld ping=tv:%ld:%ld plugs=", (long)s->timeout.tv_sec, (long)s->timeout.tv_usec, (long)s->ping_period.tv_sec, (long)s->ping_period.tv_usec);
    if (!s->plugs) printf("~");
    else {
        ListIterator it = list_iterator_create(s->plugs); char *n; int k = 0;
        while ((n = list_next(it))) { if (k++) printf(","); hexout(stdout, n); }
        list_iterator_destroy(it);
    }
    printf("\n");
    for (int i = 0; i < NUM_SCRIPTS; i++)
        if (s->prescripts[i]) { printf("S %d", i); dump_prestmts(s->prescripts[i]); printf("\n"); }
    printf("ENDSPEC\n");
}

static int ndumped = 0, parse_over = 0;

/* the specifications completed since the last call (makeSpec is static: its effect is seen in device_specs) */
static void flush_specs(void)
{
    if (parse_over || !device_specs) return;
    ListIterator it = list_iterator_create(device_specs); Spec *s; int i = 0;
    while ((s = list_next(it))) if (i++ >= ndumped) dump_spec(s);
    list_iterator_destroy(it);
    ndumped = i;
    fflush(stdout);
}

static void at_exit(void) { flush_specs(); fflush(stdout); }

/* ---------------------------------------------------------------- intercepted calls of the actions */

static const char *last_kind = "?"; static char *last_host, *last_port, *last_flags, *last_dev, *last_nodes, *last_plugs;
static char *dup_or_null(const char *s) { return s ? strdup(s) : NULL; }

void *__real_pipe_create(char *cmdline, char *flags);
void *__wrap_pipe_create(char *cmdline, char *flags)
{
    last_kind = "pipe"; last_host = dup_or_null(cmdline); last_port = NULL; last_flags = dup_or_null(flags);
    return __real_pipe_create(cmdline, flags);
}
void *__wrap_tcp_create(char *host, char *port, char *flags)
{
    last_kind = "tcp"; last_host = dup_or_null(host); last_port = dup_or_null(port); last_flags = dup_or_null(flags);
    return calloc(1, 256);
}
void *__wrap_serial_create(char *special, char *flags)
{
    last_kind = "serial"; last_host = dup_or_null(special); last_port = NULL; last_flags = dup_or_null(flags);
    return calloc(1, 256);
}
void __real_dev_add(Device *dev);
void __wrap_dev_add(Device *dev)
{
    flush_specs();
    printf("DEVICE "); hexout(stdout, dev->name); printf(" "); hexout(stdout, dev->specname); printf(" %s ", last_kind);
    hexout(stdout, last_host); printf(" "); hexout(stdout, last_port); printf(" "); hexout(stdout, last_flags); printf("\n"); fflush(stdout);
    __real_dev_add(dev);
}
Device *__real_dev_findbyname(char *name);
Device *__wrap_dev_findbyname(char *name) { last_dev = dup_or_null(name); return __real_dev_findbyname(name); }
pl_err_t __real_pluglist_map(PlugList pl, char *nodelist, char *pluglist);
pl_err_t __wrap_pluglist_map(PlugList pl, char *nodelist, char *pluglist)
{
    last_nodes = dup_or_null(nodelist); last_plugs = dup_or_null(pluglist);
    return __real_pluglist_map(pl, nodelist, pluglist);
}
bool __real_conf_addnodes(char *nodelist);
bool __wrap_conf_addnodes(char *nodelist)
{
    bool r = __real_conf_addnodes(nodelist);
    if (r) {
        flush_specs();
        printf("NODE "); hexout(stdout, nodelist); printf(" "); hexout(stdout, last_dev); printf(" ");
        hexout(stdout, last_nodes && !strcmp(last_nodes, nodelist) ? last_plugs : "?"); printf("\n"); fflush(stdout);
    }
    return r;
}
bool __real_conf_add_alias(char *name, char *hosts);
bool __wrap_conf_add_alias(char *name, char *hosts)
{
    bool r = __real_conf_add_alias(name, hosts);
    if (r) { flush_specs(); printf("ALIAS "); hexout(stdout, name); printf(" "); hexout(stdout, hosts); printf("\n"); fflush(stdout); }
    return r;
}
void __real_conf_add_listen(char *hostport);
void __wrap_conf_add_listen(char *hostport)
{
    __real_conf_add_listen(hostport);
    flush_specs(); printf("LISTEN "); hexout(stdout, hostport); printf("\n"); fflush(stdout);
}
void __real_conf_set_plug_log_level(char *s);
void __wrap_conf_set_plug_log_level(char *s)
{
    __real_conf_set_plug_log_level(s);
    flush_specs(); printf("LOGLEVEL "); hexout(stdout, s); printf("\n"); fflush(stdout);
}
void __real_conf_set_use_tcp_wrappers(bool val);
void __wrap_conf_set_use_tcp_wrappers(bool val)
{
    __real_conf_set_use_tcp_wrappers(val);
    flush_specs(); printf("TCPW %d\n", val ? 1 : 0); fflush(stdout);
}
/* regcomp is an oracle of the C library, not the grammar: a pattern is not compiled here (so a string that is no regular
   expression, or one longer than xregex.c accepts, does not end the run at the device line that instantiates it) */
void __wrap_xregex_compile(xregex_t x, const char *s, bool withsub) { (void)x; (void)s; (void)withsub; }
void __real_scanner_fini(void);
void __wrap_scanner_fini(void)
{
    /* parse_config_file(): yyparse() has returned; device_specs is destroyed right after this call */
    flush_specs(); parse_over = 1;
    printf("ACCEPT\n"); fflush(stdout);
    __real_scanner_fini();
}

/* ---------------------------------------------------------------- modes */

static int mode_parse(char *path)
{
    err_init("u_gramdump"); dev_init(false); cli_init();
    yyout = fopen("/dev/null", "w");
    atexit(at_exit);
    conf_init(path);
    printf("VALID\n"); fflush(stdout);
    return 0;
}

static int mode_lex(char *path)
{
    int t;
    err_init("u_gramdump");
    yyout = fopen("/dev/null", "w");
    scanner_init(path);
    yyin = fopen(path, "r");
    if (!yyin) err_exit(true, "%s", path);
    while ((t = yylex()) != 0) {
        printf("T %d ", t); hexout(stdout, scanner_file()); printf(" %d ", scanner_line());
        hexout(stdout, (t == TOK_STRING_VAL || t == TOK_NUMERIC_VAL) ? yylval : NULL); printf("\n");
    }
    printf("EOF "); hexout(stdout, scanner_file()); printf(" %d\n", scanner_line());
    return 0;
}

static int run_mode(const char *mode, char *path)
{
    if (!strcmp(mode, "parse")) return mode_parse(path);
    if (!strcmp(mode, "lex")) return mode_lex(path);
    fprintf(stderr, "u_gramdump: unknown mode %s\n", mode);
    return 3;
}

static void dumpfile(FILE *f, const char *tag)
{
    static unsigned char buf[1 << 16];
    size_t n, total = 0;
    fflush(f); rewind(f);
    printf(" %s=", tag);
    while ((n = fread(buf, 1, sizeof buf, f)) > 0) {
        for (size_t i = 0; i < n; i++) printf("%02x", buf[i]);
        total += n;
    }
    if (total == 0) printf("-");
}

static int mode_batch(const char *mode)
{
    static char line[1 << 16];
    while (fgets(line, sizeof line, stdin)) {
        line[strcspn(line, "\n")] = 0;
        FILE *fo = tmpfile(), *fe = tmpfile();
        struct timespec t0, t1;
        clock_gettime(CLOCK_MONOTONIC, &t0);
        fflush(stdout);
        pid_t pid = fork();
        if (pid == 0) {
            int dn = open("/dev/null", O_RDONLY);
            dup2(dn, 0); dup2(fileno(fo), 1); dup2(fileno(fe), 2);
            int rc = run_mode(mode, line);
            fflush(stdout);
            exit(rc);
        }
        int st = 0, to = 0; long ms = 0;
        for (;;) {
            pid_t r = waitpid(pid, &st, WNOHANG);
            clock_gettime(CLOCK_MONOTONIC, &t1);
            ms = (t1.tv_sec - t0.tv_sec) * 1000L + (t1.tv_nsec - t0.tv_nsec) / 1000000L;
            if (r == pid) break;
            if (ms > 10000) { to = 1; kill(pid, SIGKILL); waitpid(pid, &st, 0); break; }
            usleep(ms < 20 ? 300 : 3000);
        }
        printf("R exit=%d sig=%d to=%d ms=%ld", WIFEXITED(st) ? WEXITSTATUS(st) : -1, WIFSIGNALED(st) ? WTERMSIG(st) : 0, to, ms);
        dumpfile(fo, "out"); dumpfile(fe, "err");
        printf("\n"); fflush(stdout);
        fclose(fo); fclose(fe);
    }
    return 0;
}

int main(int ac, char **av)
{
    if (ac < 3) { fprintf(stderr, "usage: u_gramdump parse|lex <conf> | batch <mode>\n"); return 3; }
    if (!strcmp(av[1], "batch")) return mode_batch(av[2]);
    return run_mode(av[1], av[2]);
}
