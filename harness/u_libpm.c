/* C16 harness: the real libpowerman.c and powerman.c (CLI) fed a scripted server byte stream.
   read()/write() on the fake server descriptor are wrapped: every read returns the next scripted chunk
   (cut to the space the caller offers; the rest stays for the next read), "EOF" or "ERR".
   One op per line:
     L <api> <arg hex|-> <chunk hex|EOF|ERR> ...      library call on a prepared handle
     M <argv0,argv1,...> <chunk ...>                    the CLI's main() in a forked child (it exits)
   Output: one line per op. */
#define _GNU_SOURCE
#include <stdio.h>
#include <poll.h>
#include <stdlib.h>
#include <string.h>
#include <errno.h>
#include <unistd.h>
#include <sys/wait.h>
#include <sys/socket.h>
#include <netdb.h>

#define FAKEFD 1000
#define MAXCH (1 << 19)
static unsigned char *chunks[MAXCH]; static int clen[MAXCH]; static int ckind[MAXCH]; /* 0 data 1 EOF 2 ERR */
static int nchunks, curchunk, curoff;
static unsigned char wbuf[1 << 20]; static int wlen;
static int nclose;

ssize_t __real_read(int, void *, size_t); ssize_t __real_write(int, const void *, size_t); int __real_close(int);
ssize_t __wrap_read(int fd, void *b, size_t n){
    if (fd != FAKEFD) return __real_read(fd, b, n);
    if (curchunk >= nchunks) return 0;                       /* script exhausted: the server has closed */
    if (ckind[curchunk] == 1) { curchunk++; return 0; }
    if (ckind[curchunk] == 2) { curchunk++; errno = ECONNRESET; return -1; }
    size_t m = clen[curchunk] - curoff; if (m > n) m = n;
    memcpy(b, chunks[curchunk] + curoff, m); curoff += m;
    if (curoff >= clen[curchunk]) { curchunk++; curoff = 0; }
    return m;
}
ssize_t __wrap_write(int fd, const void *b, size_t n){
    if (fd != FAKEFD) return __real_write(fd, b, n);
    if (wlen + n < sizeof wbuf) { memcpy(wbuf + wlen, b, n); wlen += n; }
    return n;
}
int __wrap_close(int fd){ if (fd == FAKEFD) { nclose++; return 0; } return __real_close(fd); }
int __wrap_socket(int d, int t, int p){ return FAKEFD; }
int __wrap_connect(int fd, const struct sockaddr *a, socklen_t n){ return 0; }

#include "libpowerman.c"
#undef PM_DFLT_HOST
#define main cli_main
#define _connect_to_server_tcp _cli_connect_to_server_tcp
#define _usage _cli_usage
#define _license _cli_license
#define _version _cli_version
#include "powerman.c"
#undef main

static int hexv(int c){ return c <= '9' ? c - '0' : c - 'a' + 10; }
static int unhex(const char *h, unsigned char *buf){ int n = 0; if (h[0] == '-') { buf[0] = 0; return 0; } for (const char *p = h; p[0] && p[1]; p += 2) buf[n++] = hexv(p[0]) * 16 + hexv(p[1]); buf[n] = 0; return n; }
static void hexout(const unsigned char *p, int n){ if (n == 0) printf("-"); for (int i = 0; i < n; i++) printf("%02x", p[i]); }

static void load_chunks(char *tok){
    for (int i = 0; i < nchunks; i++) free(chunks[i]);
    nchunks = curchunk = curoff = wlen = nclose = 0;
    while ((tok = strtok(NULL, " \n")) && nchunks < MAXCH) {
        if (!strcmp(tok, "EOF")) { ckind[nchunks] = 1; chunks[nchunks] = NULL; clen[nchunks++] = 0; }
        else if (!strcmp(tok, "ERR")) { ckind[nchunks] = 2; chunks[nchunks] = NULL; clen[nchunks++] = 0; }
        else { ckind[nchunks] = 0; chunks[nchunks] = malloc(strlen(tok) / 2 + 2); clen[nchunks] = unhex(tok, chunks[nchunks]); nchunks++; }
    }
}

int main(int ac, char **av){
    static char line[1 << 22];
    setvbuf(stdout, NULL, _IOLBF, 0);
    printf("V "); hexout((unsigned char*)PACKAGE_VERSION, strlen(PACKAGE_VERSION)); printf("\n");
    while (fgets(line, sizeof line, stdin)) {
        char *op = strtok(line, " \n");
        if (!op) continue;
        if (op[0] == 'L') {
            char *api = strtok(NULL, " \n"); char *arghex = strtok(NULL, " \n");
            static unsigned char arg[1 << 16]; unhex(arghex, arg);
            char apiname[32]; strncpy(apiname, api, 31); apiname[31] = 0;
            load_chunks(arghex);
            struct pm_handle_struct h; h.pmh_fd = FAKEFD;
            pm_err_t rc = 0;
            printf("L %s ", apiname);
            if (!strcmp(apiname, "recv")) { struct list_struct *resp = NULL; rc = _server_recv_response(&h, &resp);
                printf("rc=%d lines=", (int)rc); if (rc == PM_ESUCCESS) { int first = 1; for (struct list_struct *lp = resp; lp; lp = lp->next) { printf("%s", first ? "" : ","); hexout((unsigned char*)lp->data, strlen(lp->data)); first = 0; } if (first) printf("-"); _list_free(&resp); } else printf("-"); }
            else if (!strcmp(apiname, "status")) { pm_node_state_t st = 99; rc = pm_node_status(&h, (char*)arg, &st); printf("rc=%d state=%d", (int)rc, rc == PM_ESUCCESS ? (int)st : -1); }
            else if (!strcmp(apiname, "on")) { rc = pm_node_on(&h, (char*)arg); printf("rc=%d", (int)rc); }
            else if (!strcmp(apiname, "off")) { rc = pm_node_off(&h, (char*)arg); printf("rc=%d", (int)rc); }
            else if (!strcmp(apiname, "cycle")) { rc = pm_node_cycle(&h, (char*)arg); printf("rc=%d", (int)rc); }
            else if (!strcmp(apiname, "nodes")) { pm_node_iterator_t it; rc = pm_node_iterator_create(&h, &it); printf("rc=%d nodes=", (int)rc);
                if (rc == PM_ESUCCESS) { char *s; int first = 1; while ((s = pm_node_next(it))) { printf("%s", first ? "" : ","); hexout((unsigned char*)s, strlen(s)); first = 0; } if (first) printf("-");
                    /* past the end the iterator stays at the end (a rewind would hand every node out twice to a caller that asks again);
                       after pm_node_iterator_reset the same nodes come again, once */
                    { int again = 0; for (int k = 0; k < 3; k++) if (pm_node_next(it)) again++; int second = 0; pm_node_iterator_reset(it); while (pm_node_next(it)) second++;
                      printf(" after=%d second=%d", again, second); }
                    pm_node_iterator_destroy(it); } else printf("-"); }
            else if (!strcmp(apiname, "connect")) { pm_handle_t ph = NULL; rc = pm_connect("localhost:10101", NULL, &ph, 0); printf("rc=%d closes=%d", (int)rc, nclose); if (rc == PM_ESUCCESS) free(ph); }
            else printf("bad-api");
            printf(" sent="); hexout(wbuf, wlen); printf(" unread=%d\n", nchunks - curchunk);
        } else if (op[0] == 'M') {
            char *args = strtok(NULL, " \n");
            static char argcopy[1 << 12]; strncpy(argcopy, args, sizeof argcopy - 1);
            load_chunks(args);
            fflush(stdout);
            int pfd[2], efd[2]; if (pipe(pfd) < 0 || pipe(efd) < 0) return 2;
            pid_t pid = fork();
            if (pid == 0) {
                close(pfd[0]); close(efd[0]); dup2(pfd[1], 1); dup2(efd[1], 2);
                char *cav[32]; int cac = 0; cav[cac++] = "powerman";
                for (char *t = strtok(argcopy, ","); t && cac < 31; t = strtok(NULL, ",")) cav[cac++] = t;
                cav[cac] = NULL;
                alarm(5);
                optind = 1;
                cli_main(cac, cav);
                _exit(250);
            }
            close(pfd[1]); close(efd[1]);
            static unsigned char obuf[1 << 20], ebuf[1 << 16]; int ol = 0, el = 0, n;
            /* both pipes are drained to their ends, together (a child that writes more than a pipe-full to one of them must not
               wait for us); what does not fit the buffers is read and dropped */
            { struct pollfd pf[2] = { { pfd[0], POLLIN, 0 }, { efd[0], POLLIN, 0 } }; int open_ = 2; static unsigned char sink[1 << 16];
              while (open_ > 0) { if (poll(pf, 2, -1) < 0) break;
                if (pf[0].fd >= 0 && pf[0].revents) { int room = (int)sizeof obuf - ol - 1; n = __real_read(pfd[0], room > 0 ? obuf + ol : sink, room > 0 ? room : (int)sizeof sink); if (n <= 0) { pf[0].fd = -1; open_--; } else if (room > 0) ol += n; }
                if (pf[1].fd >= 0 && pf[1].revents) { int room = (int)sizeof ebuf - el - 1; n = __real_read(efd[0], room > 0 ? ebuf + el : sink, room > 0 ? room : (int)sizeof sink); if (n <= 0) { pf[1].fd = -1; open_--; } else if (room > 0) el += n; } } }
            close(pfd[0]); close(efd[0]);
            int st; waitpid(pid, &st, 0);
            printf("M ");
            if (WIFEXITED(st)) printf("exit=%d", WEXITSTATUS(st)); else printf("signal=%d", WTERMSIG(st));
            printf(" out="); hexout(obuf, ol); printf(" err="); hexout(ebuf, el); printf("\n");
        } else printf("bad-op\n");
        fflush(stdout);
    }
    return 0;
}
