/* real liblsd/hostlist.c behind a line protocol (one op per line, one answer per line):
   C <str> | P <name> | S | U | F <name> | N <idx> | D <name> | R | E | T | K */
#include <stdio.h>
#include <stdlib.h>
#include <string.h>
#include "hostlist.h"
#include "error.h"
static char *ranged(hostlist_t hl){ int sz=256; char*b=malloc(sz); while(hostlist_ranged_string(hl,sz,b)<0){sz*=2;b=realloc(b,sz);} return b; }
static void expand(const char *tag, hostlist_t hl){ hostlist_iterator_t it=hostlist_iterator_create(hl); char*h; printf("%s",tag); while((h=hostlist_next(it))){printf(" %s",h);free(h);} printf("\n"); hostlist_iterator_destroy(it); }
int main(){ static char line[1<<18]; err_init("u_hostlist"); hostlist_t hl=hostlist_create(NULL);
 while(fgets(line,sizeof line,stdin)){ line[strcspn(line,"\n")]=0; char op=line[0]; char*arg=line+2;
  if(op=='C'){ hostlist_destroy(hl); hl=hostlist_create(arg); if(!hl){printf("C NULL\n"); hl=hostlist_create(NULL);} else printf("C ok %d\n",hostlist_count(hl)); }
  else if(op=='P'){ int n=hostlist_push(hl,arg); printf("P %d %d\n",n,hostlist_count(hl)); }
  else if(op=='S'){ hostlist_sort(hl); printf("S %d\n",hostlist_count(hl)); }
  else if(op=='U'){ hostlist_uniq(hl); printf("U %d\n",hostlist_count(hl)); }
  else if(op=='F'){ printf("F %d\n",hostlist_find(hl,arg)); }
  else if(op=='N'){ char*h=hostlist_nth(hl,atoi(arg)); printf("N %s\n",h?h:"(null)"); free(h);}
  else if(op=='D'){ int r=hostlist_delete_host(hl,arg); printf("D %d %d\n",r,hostlist_count(hl)); }
  else if(op=='R'){ char*b=ranged(hl); printf("R %s\n",b); free(b);}
  else if(op=='E'){ expand("E", hl); }
  else if(op=='T'){ char*b=ranged(hl); hostlist_t h2=hostlist_create(b); if(!h2) printf("T NULL\n"); else { expand("T", h2); hostlist_destroy(h2);} free(b); }
  else if(op=='K'){ printf("K\n"); }
  else printf("bad-op\n");
  fflush(stdout);
 } return 0; }
