/* real powerman/device_serial.c (serial_connect with its sscanf, the static _serial_setup) on a pseudo-terminal, behind a line
   protocol (one op per line, one answer per line).  The C file is #included: `sscanf`, `tcsetattr` and `err` are redirected by
   macros to recording versions that call the real ones (`tcgetattr` to one that reports the c_cflag the op put there, which a pty does not keep); `__assert_fail` is ours (an assert ends the op, not the process).

   S <mode> <if> <of> <cf> <lf> <cc> <via> <flags> <baud> <db> <par> <sb> <out> <in>
       mode 0: the slave keeps the cooked defaults of a fresh pty; 1: c_iflag/c_oflag/c_cflag/c_lflag (hex) and the control
       characters <cc> (15 bytes hex: INTR QUIT ERASE KILL EOF TIME MIN START STOP SUSP EOL REPRINT WERASE LNEXT EOL2, or -)
       are set first.  via c: serial_connect on a Device whose flags string is <flags> (hex, - = empty);
       via d: open like serial_connect, then _serial_setup(name, fd, baud, db, par, sb).
       Then: tcgetattr read back; <out> written on the slave and read on the master; <in> written on the master, poll() and
       read on the slave; what came back to the master (echo).
   T <if> <of> <cf> <lf> <cc> <out> <in> <wantout> <wantq> <wantecho>
       no powerman code: two fresh ptys put into the given state; bytes pushed through the kernel's line discipline (out on
       the first, in on the second).  The want* numbers only say how long to wait (until that many bytes are there).
   SPDX-License-Identifier: GPL-2.0-or-later */
#define _GNU_SOURCE
#include <stdio.h>
#include <stdlib.h>
#include <string.h>
#include <stdarg.h>
#include <stdbool.h>
#include <errno.h>
#include <fcntl.h>
#include <unistd.h>
#include <termios.h>
#include <poll.h>
#include <setjmp.h>
#include <time.h>
#include <assert.h>
#include <sys/ioctl.h>
#include <sys/time.h>
#include "error.h"

/* ---- recorders ---- */
static int rec_n; static int rec_scanned; static int rec_p[4];
static char rec_err[64];
static struct termios rec_tio; static int rec_set;
static jmp_buf on_assert; static int assert_armed; static char rec_assert[160];

static int my_sscanf(const char *s, const char *fmt, int *a, int *b, char *c, int *d)
{
    int n = sscanf(s, fmt, a, b, c, d);
    rec_n = n; rec_scanned = 1; rec_p[0] = *a; rec_p[1] = *b; rec_p[2] = (unsigned char)*c; rec_p[3] = *d;
    return n;
}
static int my_tcsetattr(int fd, int act, const struct termios *t)
{
    rec_tio = *t; rec_set = 1 + act;
    return tcsetattr(fd, act, t);
}
/* a pseudo-terminal does not keep CSIZE, PARENB, a cleared CREAD, ADDRB: what _serial_setup reads back as the previous settings
   gets the c_cflag the op asked for, as a serial port would report it */
static int seen_valid; static tcflag_t seen_cflag;
static int my_tcgetattr(int fd, struct termios *t)
{
    int r = tcgetattr(fd, t);
    if (r == 0 && seen_valid) t->c_cflag = seen_cflag;
    return r;
}
static void my_err(bool errno_valid, const char *fmt, ...)
{
    const char *k = strstr(fmt, "baud") ? "baud" : strstr(fmt, "data bits") ? "databits" : strstr(fmt, "stop bits") ? "stopbits" :
                    strstr(fmt, "parity") ? "parity" : strstr(fmt, "getting serial") ? "tcgetattr" : strstr(fmt, "setting serial") ? "tcsetattr" :
                    strstr(fmt, "not a tty") ? "notty" : strstr(fmt, "lock") ? "lock" : strstr(fmt, "open") ? "open" : "other";
    if (!rec_err[0]) snprintf(rec_err, sizeof rec_err, "%s", k);
}
void __assert_fail(const char *expr, const char *file, unsigned int line, const char *fn)
{
    snprintf(rec_assert, sizeof rec_assert, "%s", expr);
    for (char *p = rec_assert; *p; p++) if (*p == ' ') *p = '_';
    if (assert_armed) longjmp(on_assert, 1);
    fprintf(stderr, "assertion failed outside an op: %s (%s:%u)\n", expr, file, line);
    abort();
}
void dbg_wrapped(unsigned long channel, const char *fmt, ...) { }

#define sscanf my_sscanf
#define tcsetattr my_tcsetattr
#define tcgetattr my_tcgetattr
#define err my_err
#ifndef SERIAL_C
#define SERIAL_C "device_serial.c"
#endif
#include SERIAL_C
#undef sscanf
#undef tcsetattr
#undef tcgetattr
#undef err

/* ---- helpers ---- */
static const int CCI[15] = { VINTR, VQUIT, VERASE, VKILL, VEOF, VTIME, VMIN, VSTART, VSTOP, VSUSP, VEOL, VREPRINT, VWERASE, VLNEXT, VEOL2 };
static int hexv(int c) { return c <= '9' ? c - '0' : (c | 32) - 'a' + 10; }
static int unhex(const char *s, unsigned char *out, int max)
{
    int n = 0;
    if (!strcmp(s, "-")) return 0;
    for (; s[0] && s[1] && n < max; s += 2) out[n++] = hexv(s[0]) * 16 + hexv(s[1]);
    return n;
}
static void puthex(const char *k, const unsigned char *b, int n)
{
    printf(" %s=", k);
    if (n <= 0) printf("-");
    for (int i = 0; i < n; i++) printf("%02x", b[i]);
}
static double now_ms(void) { struct timespec ts; clock_gettime(CLOCK_MONOTONIC, &ts); return ts.tv_sec * 1e3 + ts.tv_nsec / 1e6; }
static void nap(long us) { struct timespec ts = { 0, us * 1000 }; nanosleep(&ts, NULL); }
static int avail(int fd) { int n = 0; if (ioctl(fd, FIONREAD, &n) < 0) return -1; return n; }
/* wait until `want` bytes can be read from fd (at most limit ms), then a little longer for anything unexpected */
static void settle(int fd, int want, int limit)
{
    double t0 = now_ms();
    if (want > 0) { while (avail(fd) < want && now_ms() - t0 < limit) nap(100); nap(300); }
    else { int last = -1; for (int i = 0; i < 4; i++) { int a = avail(fd); if (a == last && i >= 2) break; last = a; nap(700); } }
}
static int drain(int fd, unsigned char *buf, int max)
{
    int n = 0, zeros = 0;
    for (;;) {
        int r = read(fd, buf + n, max - n);
        if (r > 0) { n += r; if (n >= max) break; }
        else if (r == 0) { if (++zeros > 4096) break; }     /* canonical mode: an EOF character ends an empty line */
        else break;                                          /* EAGAIN: nothing more; EIO */
    }
    return n;
}
static int fds[8], nfds;
static int keep(int fd) { if (fd >= 0 && nfds < 8) fds[nfds++] = fd; return fd; }
static void close_all(void) { for (int i = 0; i < nfds; i++) close(fds[i]); nfds = 0; }

static int open_pty(char *name, size_t len)
{
    int m = posix_openpt(O_RDWR | O_NOCTTY);
    if (m < 0 || grantpt(m) < 0 || unlockpt(m) < 0 || ptsname_r(m, name, len) != 0) { perror("pty"); exit(3); }
    fcntl(m, F_SETFL, fcntl(m, F_GETFL, 0) | O_NONBLOCK);
    return keep(m);
}
/* put the slave into the op's initial state; prints what the kernel kept */
static void init_state(int s, int mode, unsigned long fl[4], const char *cc)
{
    struct termios t;
    if (mode) {
        unsigned char c[15]; int k = unhex(cc, c, 15);
        if (tcgetattr(s, &t) < 0) { perror("tcgetattr"); exit(3); }
        t.c_iflag = fl[0]; t.c_oflag = fl[1]; t.c_cflag = fl[2]; t.c_lflag = fl[3];
        for (int i = 0; i < k; i++) t.c_cc[CCI[i]] = c[i];
        /* EINVAL here means: nothing changed because a pty keeps neither size nor parity (the state is then the one asked for, as far as a pty goes) */
        if (tcsetattr(s, TCSANOW, &t) < 0 && errno != EINVAL) { perror("tcsetattr init"); exit(3); }
    }
    tcgetattr(s, &t);
    printf(" init=%x:%x:%x:%x:%d:%d", t.c_iflag, t.c_oflag, t.c_cflag, t.c_lflag, t.c_cc[VMIN], t.c_cc[VTIME]);
}
static unsigned char obuf[1 << 16], ibuf[1 << 16], ebuf[1 << 16];
/* bytes through the line discipline: `out` slave -> master */
static void push_out(int m, int s, const unsigned char *out, int no, int want)
{
    int w = no ? write(s, out, no) : 0;
    settle(m, want, 1000);
    int n = drain(m, obuf, sizeof obuf);
    if (w != no) printf(" outw=%d", w);
    puthex("out", obuf, n);
}
/* `in` master -> slave, poll() on the slave, read; and what came back to the master */
static void push_in(int m, int s, const unsigned char *in, int ni, int wantq, int wantecho)
{
    int w = ni ? write(m, in, ni) : 0;
    if (wantq > 0) settle(s, wantq, 1000);
    if (wantecho > 0) settle(m, wantecho, 1000);
    if (wantq <= 0 && wantecho <= 0) settle(s, 0, 0);
    struct pollfd p = { s, POLLIN, 0 };
    int pr = poll(&p, 1, 0);
    int n = drain(s, ibuf, sizeof ibuf);
    int e = drain(m, ebuf, sizeof ebuf);
    if (w != ni) printf(" inw=%d", w);
    printf(" poll=%d", pr > 0 && (p.revents & POLLIN) ? 1 : 0);
    puthex("in", ibuf, n); puthex("echo", ebuf, e);
}

static char line[1 << 18];
static unsigned char outb[1 << 16], inb[1 << 16], flagb[1 << 12];

static void op_S(char *args)
{
    int mode, baud, db, par, sb; unsigned long fl[4]; char cc[64], via[4]; int used = 0;
    static char flagshex[1 << 13], outhex[1 << 17], inhex[1 << 17];
    if (sscanf(args, "%d %lx %lx %lx %lx %63s %3s %8191s %d %d %d %d %131071s %131071s%n", &mode, &fl[0], &fl[1], &fl[2], &fl[3], cc, via, flagshex,
               &baud, &db, &par, &sb, outhex, inhex, &used) < 14) { printf("bad-op\n"); return; }
    int nf = unhex(flagshex, flagb, sizeof flagb - 1); flagb[nf] = 0;
    int no = unhex(outhex, outb, sizeof outb), ni = unhex(inhex, inb, sizeof inb);
    char name[128];
    int m = open_pty(name, sizeof name);
    int s0 = keep(open(name, O_RDWR | O_NOCTTY | O_NONBLOCK));
    if (s0 < 0) { perror("open slave"); exit(3); }
    printf("S");
    init_state(s0, mode, fl, cc);
    rec_n = 0; rec_scanned = 0; rec_err[0] = 0; rec_set = 0; rec_assert[0] = 0; memset(rec_p, 0, sizeof rec_p);
    volatile int res = -1, fd = -1;
    static Device dev; memset(&dev, 0, sizeof dev);
    dev.name = "ser0"; dev.fd = NO_FD; dev.connect_state = DEV_NOT_CONNECTED;
    assert_armed = 1; seen_valid = mode; seen_cflag = fl[2];
    if (setjmp(on_assert) == 0) {
        if (via[0] == 'c') {
            dev.data = serial_create(name, (char *)flagb);
            res = serial_connect(&dev) ? 1 : 0;
            fd = dev.fd;
            if (res && dev.connect_state != DEV_CONNECTED) res = 2;
            if (!res && (dev.fd != NO_FD || dev.connect_state != DEV_NOT_CONNECTED)) res = 3;
        } else {
            fd = keep(open(name, O_RDWR | O_NONBLOCK | O_NOCTTY));
            rec_p[0] = baud; rec_p[1] = db; rec_p[2] = par & 255; rec_p[3] = sb;
            res = _serial_setup("ser0", fd, baud, db, (char)par, sb) == 0 ? 1 : 0;
        }
    } else res = -6;                                         /* SIGABRT in the daemon */
    assert_armed = 0; seen_valid = 0;
    if (res == -6 && via[0] == 'c' && dev.fd >= 0) { close(dev.fd); dev.fd = NO_FD; }
    if (rec_scanned) printf(" n=%d", rec_n); else printf(" n=-");
    printf(" p=%d,%d,%d,%d res=%d err=%s", rec_p[0], rec_p[1], rec_p[2], rec_p[3], res, res == -6 ? rec_assert : rec_err[0] ? rec_err : "-");
    if (rec_set) printf(" asked=%x:%x:%x:%x:%u:%u:%u:%u:%d:%d:%d", rec_tio.c_iflag, rec_tio.c_oflag, rec_tio.c_cflag, rec_tio.c_lflag, rec_tio.c_ispeed, rec_tio.c_ospeed,
                        cfgetispeed(&rec_tio), cfgetospeed(&rec_tio), rec_tio.c_cc[VMIN], rec_tio.c_cc[VTIME], rec_set - 1);
    else printf(" asked=-");
    if (res == 1) {
        struct termios t; tcgetattr(fd, &t);
        printf(" back=%x:%x:%x:%x:%u:%u:%d:%d", t.c_iflag, t.c_oflag, t.c_cflag, t.c_lflag, cfgetispeed(&t), cfgetospeed(&t), t.c_cc[VMIN], t.c_cc[VTIME]);
        printf(" nonblock=%d", (fcntl(fd, F_GETFL, 0) & O_NONBLOCK) ? 1 : 0);
        push_out(m, fd, outb, no, no);
        push_in(m, fd, inb, ni, ni, 0);
    }
    printf("\n");
    if (via[0] == 'c' && dev.data) { if (res == 1) serial_disconnect(&dev); serial_destroy(dev.data); }
    close_all();
}

static void op_T(char *args)
{
    unsigned long fl[4]; char cc[64]; int wo, wq, we;
    static char outhex[1 << 17], inhex[1 << 17];
    if (sscanf(args, "%lx %lx %lx %lx %63s %131071s %131071s %d %d %d", &fl[0], &fl[1], &fl[2], &fl[3], cc, outhex, inhex, &wo, &wq, &we) < 10) { printf("bad-op\n"); return; }
    int no = unhex(outhex, outb, sizeof outb), ni = unhex(inhex, inb, sizeof inb);
    char name[128];
    printf("T");
    int m = open_pty(name, sizeof name);
    int s = keep(open(name, O_RDWR | O_NOCTTY | O_NONBLOCK));
    init_state(s, 1, fl, cc);
    push_out(m, s, outb, no, wo);
    close_all();
    m = open_pty(name, sizeof name);
    s = keep(open(name, O_RDWR | O_NOCTTY | O_NONBLOCK));
    { struct termios t; unsigned char c[15]; int k = unhex(cc, c, 15); tcgetattr(s, &t);
      t.c_iflag = fl[0]; t.c_oflag = fl[1]; t.c_cflag = fl[2]; t.c_lflag = fl[3]; for (int i = 0; i < k; i++) t.c_cc[CCI[i]] = c[i];
      tcsetattr(s, TCSANOW, &t); }
    push_in(m, s, inb, ni, wq, we);
    printf("\n");
    close_all();
}

int main(void)
{
    err_init("u_serial");
    while (fgets(line, sizeof line, stdin)) {
        line[strcspn(line, "\n")] = 0;
        if (line[0] == 'S' && line[1] == ' ') op_S(line + 2);
        else if (line[0] == 'T' && line[1] == ' ') op_T(line + 2);
        else printf("bad-op\n");
        fflush(stdout);
    }
    return 0;
}
