/* C17 translator back end: the real lexer, grammar, makeDevice/makeStmt and regcomp instantiate every
   specification named on the command line's configuration file; the resulting Stmt trees are printed.
   usage: u_specdump <conf>   (conf includes one .dev file and declares one device + node per specification) */
#define _GNU_SOURCE
#include <stdio.h>
#include <stdlib.h>
#include <string.h>
#include <regex.h>
#include "xregex.c"
#include "list.h"
#include "hostlist.h"
#include "cbuf.h"
#include "xpoll.h"
#include "pluglist.h"
#include "arglist.h"
#include "device_private.h"
#include "device.h"
#include "parse_util.h"
#include "error.h"
#include "client.h"
static void hexout(const unsigned char *p, int n){ if (n == 0) printf("-"); for (int i = 0; i < n; i++) printf("%02x", p[i]); }
static void dump_stmts(List l){
    ListIterator it = list_iterator_create(l); Stmt *s;
    while ((s = list_next(it))) {
        switch (s->type) {
        case STMT_SEND: printf(" send "); hexout((unsigned char*)s->u.send.fmt, strlen(s->u.send.fmt)); break;
        case STMT_EXPECT: printf(" expect %d", (int)s->u.expect.exp->xr_regex->re_nsub); break;
        case STMT_DELAY: printf(" delay %ld", (long)s->u.delay.tv.tv_sec*1000000L + s->u.delay.tv.tv_usec); break;
        case STMT_SETPLUGSTATE:
            printf(" setplugstate %d %d %d %d", s->u.setplugstate.plug_name ? 1 : 0, s->u.setplugstate.plug_name ? -1 : s->u.setplugstate.plug_mp, s->u.setplugstate.stat_mp, list_count(s->u.setplugstate.interps)); break;
        case STMT_SETRESULT:
            printf(" setresult %d %d %d", s->u.setresult.plug_mp, s->u.setresult.stat_mp, list_count(s->u.setresult.interps)); break;
        case STMT_FOREACHPLUG: printf(" foreachplug %d", list_count(s->u.foreach.stmts)); dump_stmts(s->u.foreach.stmts); break;
        case STMT_FOREACHNODE: printf(" foreachnode %d", list_count(s->u.foreach.stmts)); dump_stmts(s->u.foreach.stmts); break;
        case STMT_IFON: printf(" ifon %d", list_count(s->u.ifonoff.stmts)); dump_stmts(s->u.ifonoff.stmts); break;
        case STMT_IFOFF: printf(" ifoff %d", list_count(s->u.ifonoff.stmts)); dump_stmts(s->u.ifonoff.stmts); break;
        }
    }
    list_iterator_destroy(it);
}
int main(int ac, char **av){
    err_init("u_specdump"); dev_init(false); cli_init(); conf_init(av[1]);
    ListIterator di = list_iterator_create(dev_getdevices()); Device *dev;
    while ((dev = list_next(di))) {
        printf("SPEC "); hexout((unsigned char*)dev->specname, strlen(dev->specname));
        printf(" %ld %ld", (long)dev->timeout.tv_sec*1000000L + dev->timeout.tv_usec, (long)dev->ping_period.tv_sec*1000000L + dev->ping_period.tv_usec);
        { int n = 0; PlugListIterator it = pluglist_iterator_create(dev->plugs); Plug *p; while ((p = pluglist_next(it))) n++; pluglist_iterator_destroy(it); printf(" %d\n", n); }
        for (int i = 0; i < NUM_SCRIPTS; i++) if (dev->scripts[i]) { printf("S %d %d", i, list_count(dev->scripts[i])); dump_stmts(dev->scripts[i]); printf("\n"); }
        printf("END\n");
    }
    list_iterator_destroy(di);
    printf("NUM_SCRIPTS %d MAX_MATCH_POS %d\n", NUM_SCRIPTS, MAX_MATCH_POS);
    return 0;
}
