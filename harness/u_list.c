/* real liblsd/list.c behind a line protocol (one op per line, one answer per line); the Lean side is lean/LlMain.lean (same
   protocol, see there).  list.c is included so that the struct fields (head, tail, count, the iterator chain with pos / prev,
   the free list of nodes) can be printed.  Built with assertions (no NDEBUG), ASan + UBSan.  Items are positive integers
   cast to void *.

   N fdel | A x | P x | U x | E x | O | Q | K | Y | F m r | D m r | H m r | S kind a b | I k | R k | X k | n k | i k x | f k m r | r k | d k
   answer: "<op> <results> | count | items | tail ok | free nodes | iterators in chain order k:j:g" */
#include <stdio.h>
#include <stdlib.h>
#include <string.h>
#include <stdint.h>
#include <assert.h>

#include "list.c"

void lsd_fatal_error(char *file, int line, char *mesg) { fprintf(stderr, "lsd_fatal_error %s:%d %s\n", file, line, mesg); }
void *lsd_nomem_error(char *file, int line, char *mesg) { fprintf(stderr, "lsd_nomem_error %s:%d %s\n", file, line, mesg); return NULL; }

#define MAXIT 64
#define MAXN 100000
static ListIterator its[MAXIT];
static long dlog[MAXN]; static int ndlog;
static void del_fn(void *x) { if (ndlog < MAXN) dlog[ndlog++] = (long)(intptr_t) x; }
static void put_dlog(void)
{
    if (ndlog == 0) { printf(" -"); return; }
    for (int i = 0; i < ndlog; i++) printf(" %ld", dlog[i]);
}

static long key_m, key_r;
static int pred_fn(void *x, void *key) { (void) key; return ((long)(intptr_t) x) % key_m == key_r; }
static int each_fn(void *x, void *arg) { (void) arg; return ((long)(intptr_t) x) % key_m == key_r ? -1 : 0; }
static long c_kind, c_a, c_b;
static int cmp_fn(void *vx, void *vy)
{
    long x = (long)(intptr_t) vx, y = (long)(intptr_t) vy;
    switch (c_kind) {
    case 0: return (int)(x - y);
    case 1: return (int)(y - x);
    case 2: return (int)(x % (c_a + 1) - y % (c_a + 1));
    case 3: return (int)((x * c_a + y * c_b + x * y) % 7 - 3);
    case 4: return (int)(c_a - 1);
    default: return (int)((x / (c_a + 1)) % (c_b + 1) - (y / (c_a + 1)) % (c_b + 1));
    }
}

static int slot_of(List l, ListIterator i) { (void) l; for (int k = 0; k < MAXIT; k++) if (its[k] == i) return k; return -1; }

static void state(List l)
{
    static ListNode ns[MAXN + 1];
    int n = 0; ListNode p;
    for (p = l->head; p && n < MAXN; p = p->next) ns[n++] = p;
    if (p) { printf(" | BROKEN\n"); fflush(stdout); return; }
    printf(" | %d |", l->count);
    if (n == 0) printf(" -");
    for (int k = 0; k < n; k++) printf(" %ld", (long)(intptr_t) ns[k]->data);
    ListNode *last = n ? &ns[n - 1]->next : &l->head;
    int nfree = 0; for (ListNode f = list_free_nodes; f; f = *(ListNode *) f) nfree++;
    printf(" | %d | %d |", l->tail == last ? 1 : 0, nfree);
    if (!l->iNext) printf(" -");
    for (ListIterator i = l->iNext; i; i = i->iNext) {
        int j = -1;
        if (i->prev == &l->head) j = 0;
        else for (int k = 0; k < n; k++) if (i->prev == &ns[k]->next) { j = k + 1; break; }
        int g = -1;
        if (j >= 0) {
            ListNode t0 = j < n ? ns[j] : NULL;
            if (i->pos == t0) g = 0;
            else if (j < n && i->pos == (j + 1 < n ? ns[j + 1] : NULL)) g = 1;
        }
        if (j >= 0 && g >= 0) printf(" %d:%d:%d", slot_of(l, i), j, g); else printf(" %d:?", slot_of(l, i));
    }
    putchar('\n'); fflush(stdout);
}

static int words(char *s, char **w, int max) { int n = 0; char *p = strtok(s, " "); while (p && n < max) { w[n++] = p; p = strtok(NULL, " "); } return n; }
#define V(x) ((void *)(intptr_t)(x))
#define L(v) ((long)(intptr_t)(v))

int main(void)
{
    char *line = NULL; size_t cap = 0; ssize_t got; List l = NULL; char *w[8];
    while ((got = getline(&line, &cap, stdin)) > 0) {
        if (line[got - 1] == '\n') line[got - 1] = 0;
        int nw = words(line, w, 8); if (nw == 0) { printf("bad-op\n"); fflush(stdout); continue; }
        char op = w[0][0]; ndlog = 0;
        long a1 = nw > 1 ? atol(w[1]) : 0, a2 = nw > 2 ? atol(w[2]) : 0, a3 = nw > 3 ? atol(w[3]) : 0;
        if (op == 'N' && nw == 2) {
            if (l) { list_destroy(l); memset(its, 0, sizeof(its)); }
            l = list_create(a1 ? del_fn : NULL);
            printf("N"); put_dlog(); state(l); continue;
        }
        if (!l) { printf("no-list\n"); fflush(stdout); continue; }
        int k = (int) a1;
        if (op == 'A' && nw == 2) { printf("A %ld", L(list_append(l, V(a1)))); state(l); }
        else if (op == 'P' && nw == 2) { printf("P %ld", L(list_prepend(l, V(a1)))); state(l); }
        else if (op == 'U' && nw == 2) { printf("U %ld", L(list_push(l, V(a1)))); state(l); }
        else if (op == 'E' && nw == 2) { printf("E %ld", L(list_enqueue(l, V(a1)))); state(l); }
        else if (op == 'O' && nw == 1) { printf("O %ld", L(list_pop(l))); state(l); }
        else if (op == 'Q' && nw == 1) { printf("Q %ld", L(list_dequeue(l))); state(l); }
        else if (op == 'K' && nw == 1) { printf("K %ld", L(list_peek(l))); state(l); }
        else if (op == 'Y' && nw == 1) { int e = list_is_empty(l); int c = list_count(l); printf("Y %d %d", e, c); state(l); }
        else if (op == 'F' && nw == 3) { key_m = a1; key_r = a2; printf("F %ld", L(list_find_first(l, pred_fn, NULL))); state(l); }
        else if (op == 'D' && nw == 3) { key_m = a1; key_r = a2; int n = list_delete_all(l, pred_fn, NULL); printf("D %d", n); put_dlog(); state(l); }
        else if (op == 'H' && nw == 3) { key_m = a1; key_r = a2; printf("H %d", list_for_each(l, each_fn, NULL)); state(l); }
        else if (op == 'S' && nw == 4) { c_kind = a1; c_a = a2; c_b = a3; list_sort(l, cmp_fn); printf("S"); state(l); }
        else if (op == 'I' && nw == 2 && k >= 0 && k < MAXIT && !its[k]) { its[k] = list_iterator_create(l); printf("I"); state(l); }
        else if (op == 'R' && nw == 2 && k >= 0 && k < MAXIT && its[k]) { list_iterator_reset(its[k]); printf("R"); state(l); }
        else if (op == 'X' && nw == 2 && k >= 0 && k < MAXIT && its[k]) { list_iterator_destroy(its[k]); its[k] = NULL; printf("X"); state(l); }
        else if (op == 'n' && nw == 2 && k >= 0 && k < MAXIT && its[k]) { printf("n %ld", L(list_next(its[k]))); state(l); }
        else if (op == 'i' && nw == 3 && k >= 0 && k < MAXIT && its[k]) { printf("i %ld", L(list_insert(its[k], V(a2)))); state(l); }
        else if (op == 'f' && nw == 4 && k >= 0 && k < MAXIT && its[k]) { key_m = a2; key_r = a3; printf("f %ld", L(list_find(its[k], pred_fn, NULL))); state(l); }
        else if (op == 'r' && nw == 2 && k >= 0 && k < MAXIT && its[k]) { printf("r %ld", L(list_remove(its[k]))); state(l); }
        else if (op == 'd' && nw == 2 && k >= 0 && k < MAXIT && its[k]) { int n = list_delete(its[k]); printf("d %d", n); put_dlog(); state(l); }
        else { printf("bad-op\n"); fflush(stdout); }
    }
    if (l) list_destroy(l);
    return 0;
}
