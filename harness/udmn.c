/* throw-away: client.c + device.c + device_tcp.c in one translation unit, the body of _select_loop verbatim,
   every system call answered by the op stream; one tcp device, several clients */
#define _GNU_SOURCE
#include <stdio.h>
#include <stdlib.h>
#include <string.h>
#include <regex.h>
#include <errno.h>
#include <poll.h>
#include <fcntl.h>
#include <netdb.h>
#include <arpa/inet.h>
#include <sys/time.h>
#include <sys/socket.h>
#include <sys/wait.h>
#include <signal.h>
#define _handle_read _cli_handle_read
#define _xhostlist_ranged_string _cli_xhostlist_ranged_string
#define CHUNKSIZE CLI_CHUNKSIZE_UNUSED
#define _handle_write _cli_handle_write
#include "parse_util.c"   /* static conf_aliases: dumped for the model */
/* the --stdio client's two descriptors are descriptors of the simulated kernel (the harness's own protocol runs on the real 0 and 1) */
#undef STDIN_FILENO
#undef STDOUT_FILENO
#define STDIN_FILENO 1000
#define STDOUT_FILENO 1001
#include "client.c"
#undef STDIN_FILENO
#undef STDOUT_FILENO
#define STDIN_FILENO 0
#define STDOUT_FILENO 1
#undef _handle_read
#undef _xhostlist_ranged_string
#undef _handle_write
#include "xregex.c"
#include "device.c"
#include "device_tcp.c"

static long vt_us = 1000000000L;
int __wrap_gettimeofday(struct timeval *tv, void *tz){ tv->tv_sec = vt_us/1000000; tv->tv_usec = vt_us%1000000; return 0; }
static const regex_t *pats[4096]; static int npats = 0;
static int patid(const regex_t *r){ for (int i = 0; i < npats; i++) if (pats[i] == r) return i; pats[npats] = r; return npats++; }
static void hexout(const unsigned char *p, int n){ if (n == 0) printf("-"); for (int i = 0; i < n; i++) printf("%02x", p[i]); }
static int hexv(int c){ return c<='9'? c-'0' : c-'a'+10; }
static int unhex(const char *h, unsigned char *buf){ int n = 0; if (h[0]=='-') { buf[0] = 0; return 0; } for (const char *p = h; p[0] && p[1] && p[0] != '\n' && p[0] != ' '; p += 2) buf[n++] = hexv(p[0])*16 + hexv(p[1]); buf[n] = 0; return n; }
int __real_regexec(const regex_t *preg, const char *s, size_t nmatch, regmatch_t pm[], int eflags);
static int logrx = 0;
int __wrap_regexec(const regex_t *preg, const char *s, size_t nmatch, regmatch_t pm[], int eflags){
    int r = __real_regexec(preg, s, nmatch, pm, eflags);
    if (logrx) { printf("X %d ", patid(preg)); hexout((const unsigned char *)s, strlen(s));
        if (r != 0) printf(" nomatch\n");
        else { printf(" "); if (nmatch == 0) printf("0:0"); for (size_t i = 0; i < nmatch; i++) printf("%s%d:%d", i ? "," : "", (int)pm[i].rm_so, (int)pm[i].rm_eo); printf("\n"); } fflush(stdout); /* a death later in this pass must not swallow the oracle record */ }
    return r; }

#define LFD 900
#define VFD0 1000          /* clients 1000.., device sockets 2000.. */
#define DFD0 2000
#define MAXFD 4096
static int nacc = 0, nsock = 0, k_acc = 0; static long k_hup = -1; static int k_wstat = SIGTERM;   /* how a reaped coprocess ended: raw wait status (W<n> in the op) */
/* connect() answers and SO_ERROR answers of one pass: a string of digits, one per call *of one device* (every device reads the
   string from its start: the answers belong to the peer, not to the order in which the daemon visits its devices), the last
   digit repeating - so a single digit is the answer to every call of the pass, as it used to be */
#define MAXDEVS 16
static char k_con[64] = "0", k_soe[64] = "0"; static int n_con[MAXDEVS], n_soe[MAXDEVS];
static int devix_of_fd(int fd);
static int k_ans(const char *s, int *n, int fd){ int ix = devix_of_fd(fd); int len = strlen(s); int i = n[ix]++; if (i >= len) i = len - 1; return len > 0 ? s[i] - '0' : 0; }
static struct { int rev, rk, cap, len, off, reads, readres, wlen, werr, wblock, writes, nonblock, rblock; unsigned char data[4096], *w; } K[MAXFD];
#define WMAX (1 << 21)      /* what one descriptor can take in one pass: allocated on first use */
#include <sys/mman.h>
/* outside the heap: the live-heap ledger of the steady-state layer counts the daemon's allocations, not the simulated kernel's */
#define WBUF(k) ((k)->w ? (k)->w : ((k)->w = mmap(NULL, WMAX, PROT_READ | PROT_WRITE, MAP_PRIVATE | MAP_ANONYMOUS, -1, 0)))
#define KK(fd) (&K[(fd) - VFD0])
/* a descriptor is blocking until fcntl(F_SETFL, O_NONBLOCK), as in the kernel */
int __real_close(int fd); ssize_t __real_read(int, void *, size_t); ssize_t __real_write(int, const void *, size_t); int __real_fcntl(int fd, int cmd, ...);
int __wrap_accept(int fd, struct sockaddr *a, socklen_t *n){ if (k_acc == 2) { printf("Y accept -1\n"); errno = EWOULDBLOCK; return -1; }
    int nfd = VFD0 + nacc++; memset(KK(nfd), 0, sizeof K[0]); printf("Y accept %d\n", nfd); memset(a, 0, sizeof(struct sockaddr_in)); a->sa_family = AF_INET; *n = sizeof(struct sockaddr_in); return nfd; }
int __wrap_getnameinfo(const struct sockaddr *sa, socklen_t salen, char *host, socklen_t hostlen, char *serv, socklen_t servlen, int flags){
    if (flags & NI_NAMEREQD) return EAI_NONAME; strcpy(host, "127.0.0.1"); if (serv) strcpy(serv, "5000"); return 0; }
static void k_full(const char *what){ fflush(stdout); fprintf(stderr, "HARNESS: the simulated kernel's descriptor table is exhausted (%s)\n", what); _exit(97); }
int __wrap_socket(int d, int t, int p){ if (nsock >= 1000) k_full("sockets"); int fd = DFD0 + nsock++; memset(KK(fd), 0, sizeof K[0]); printf("Y socket %d\n", fd); return fd; }
static int npair = 0, nfork = 0;
int __wrap_socketpair(int d, int t, int p, int sv[2]){ if (DFD0 + 1000 + 2*npair + 1 - VFD0 >= MAXFD) k_full("socket pairs"); sv[0] = DFD0 + 1000 + 2*npair; sv[1] = sv[0] + 1; npair++; memset(KK(sv[0]), 0, sizeof K[0]); printf("Y socketpair %d %d\n", sv[0], sv[1]); return 0; }
pid_t __wrap_fork(void){ int pid = 5000 + nfork++; printf("Y fork %d\n", pid); return pid; }
int __wrap_kill(pid_t pid, int sig){ printf("Y kill %d %d\n", (int)pid, sig); return 0; }
/* a child that was sent SIGTERM a moment ago has not exited yet: only a waitpid() that really waits reaps it; with WNOHANG the call
   returns 0, nothing is reaped and the child becomes a zombie when it dies (the line differs from the model's, the predicates see
   a child that is never waited for) */
pid_t __wrap_waitpid(pid_t pid, int *wstat, int opt){ if (opt & WNOHANG) { printf("Y waitpid-nohang %d\n", (int)pid); return 0; } printf("Y waitpid %d\n", (int)pid); if (wstat) *wstat = k_wstat; return pid; }
int __wrap_setsockopt(int fd, int l, int o, const void *v, socklen_t n){ return 0; }
int __wrap_connect(int fd, const struct sockaddr *a, socklen_t n){ int k = k_ans(k_con, n_con, fd); printf("Y connect %d%s\n", k, (!KK(fd)->nonblock) ? " BLOCKS" : "");
    /* harness-only line (not compared): which device, which of its addresses (127.0.0.1 + index); an attempt (tcp_connect) begins at index 0 */
    if (a && a->sa_family == AF_INET) printf("I connect %d %d\n", devix_of_fd(fd), (int)((ntohl(((const struct sockaddr_in *)a)->sin_addr.s_addr) & 0xff) - 1)); if (k == 0) return 0; errno = k == 1 ? EINPROGRESS : ENETUNREACH; return -1; }
int __wrap_getsockopt(int fd, int l, int o, void *v, socklen_t *n){ int k = k_ans(k_soe, n_soe, fd); printf("Y soerr %d\n", k); *(int *)v = k ? ECONNREFUSED : 0; return 0; }
/* name resolution: `multiN` (N = 2..4) has N addresses 127.0.0.1 .. 127.0.0.N; every other name is left to the real resolver */
int __real_getaddrinfo(const char *node, const char *service, const struct addrinfo *hints, struct addrinfo **res);
void __real_freeaddrinfo(struct addrinfo *res);
static struct addrinfo *ours[64]; static int nours = 0;
int __wrap_getaddrinfo(const char *node, const char *service, const struct addrinfo *hints, struct addrinfo **res){
    if (node && !strncmp(node, "multi", 5) && node[5] >= '2' && node[5] <= '4' && !node[6]) {
        int n = node[5] - '0'; struct addrinfo *head = NULL, **tail = &head;
        for (int i = 0; i < n; i++) { struct addrinfo *ai = calloc(1, sizeof *ai); struct sockaddr_in *sa = calloc(1, sizeof *sa);
            sa->sin_family = AF_INET; sa->sin_port = htons(service ? atoi(service) : 0); sa->sin_addr.s_addr = htonl(0x7f000001u + i);
            ai->ai_family = AF_INET; ai->ai_socktype = SOCK_STREAM; ai->ai_addrlen = sizeof *sa; ai->ai_addr = (struct sockaddr *)sa; *tail = ai; tail = &ai->ai_next; }
        if (nours < 64) ours[nours++] = head;
        *res = head; return 0; }
    return __real_getaddrinfo(node, service, hints, res); }
void __wrap_freeaddrinfo(struct addrinfo *res){
    for (int i = 0; i < nours; i++) if (ours[i] == res) { ours[i] = ours[--nours]; while (res) { struct addrinfo *nx = res->ai_next; free(res->ai_addr); free(res); res = nx; } return; }
    __real_freeaddrinfo(res); }
int __wrap_fcntl(int fd, int cmd, long arg){ if (fd >= VFD0) { if (cmd == F_GETFL) return KK(fd)->nonblock ? O_NONBLOCK : 0; if (cmd == F_SETFL) KK(fd)->nonblock = !!(arg & O_NONBLOCK); return 0; } return __real_fcntl(fd, cmd, arg); }
int __wrap_close(int fd){ if (fd >= VFD0) { printf("Y close %d\n", fd); return 0; } return __real_close(fd); }
ssize_t __wrap_read(int fd, void *b, size_t n){ if (fd < VFD0) return __real_read(fd, b, n);
    typeof(K[0]) *k = KK(fd); k->reads++;
    /* rk 3: the kernel holds exactly as many bytes as the first read of this pass asks for (cbuf reads in two pieces: up to the
       physical end of its ring, then the wrapped part - the second read finds nothing) */
    if (k->reads == 1 && k->rk == 3 && (size_t)k->len > n) k->len = n;
    if (k->reads == 1 && k->rk == 1) { k->readres = -1; errno = EIO; return -1; }
    if (k->reads == 1 && k->rk == 2) { k->readres = 0; return 0; }
    if (k->off >= k->len) { if (k->reads == 1) k->readres = -1; if ((!k->nonblock)) k->rblock = 1; errno = EAGAIN; return -1; }   /* on a blocking descriptor the daemon would sleep here */
    size_t m = k->len - k->off; if (m > n) m = n; memcpy(b, k->data + k->off, m); k->off += m; k->readres += m; return m; }
ssize_t __wrap_write(int fd, const void *b, size_t n){ if (fd < VFD0) return __real_write(fd, b, n);
    typeof(K[0]) *k = KK(fd); k->writes++;
    /* capacity -2: the kernel takes the first piece offered in this pass whole and has no room for a second one (a wrapped
       ring buffer is written in two pieces); the driver rewrites the recorded op to the equivalent byte count afterwards */
    if (k->cap == -2) { if (k->writes > 1 && !(!k->nonblock)) { errno = EAGAIN; return -1; } memcpy(WBUF(k) + k->wlen, b, n); k->wlen += n; return n; }
    if (k->cap < 0) { if (fd >= DFD0) { memcpy(WBUF(k) + k->wlen, b, n); k->wlen += n; } k->werr = 1;
        /* the kernel sends SIGPIPE with EPIPE: unless main() had it ignored, the daemon dies here */
        { struct sigaction sa; sigaction(SIGPIPE, NULL, &sa); if (sa.sa_handler == SIG_DFL) { fflush(stdout); fprintf(stderr, "SIGPIPE: write to a closed peer with the default disposition\n"); raise(SIGPIPE); } }
        errno = EPIPE; return -1; }
    size_t m = n;
    if (k->wlen + n > WMAX) { fflush(stdout); fprintf(stderr, "HARNESS: more than %d bytes written to one descriptor in one pass\n", WMAX); _exit(97); }
    if ((!k->nonblock)) { if ((size_t)k->cap < n) { k->wblock = 1; k->cap = 0; } else k->cap -= n; }   /* capacity is per pass, a wrapped cbuf issues two calls */
    else { if ((size_t)k->cap == 0) { errno = EAGAIN; return -1; } if (m > (size_t)k->cap) m = k->cap; k->cap -= m; }
    memcpy(WBUF(k) + k->wlen, b, m); k->wlen += m; return m; }
int __real_poll(struct pollfd *fds, nfds_t n, int tmo);
int __wrap_poll(struct pollfd *fds, nfds_t n, int tmo){ int r = 0;
    for (int want = LFD; want < DFD0 + 1000 + 2*npair; want++) for (nfds_t i = 0; i < n; i++) if (fds[i].fd == want)
        printf("O interest %d %d\n", fds[i].fd, ((fds[i].events & POLLIN) ? 1 : 0) | ((fds[i].events & POLLOUT) ? 2 : 0));
    printf("O polltmo %d\n", tmo);
    if (k_hup >= 0) { long d = k_hup; k_hup = -1; raise(SIGHUP); vt_us += d; errno = EINTR; return -1; }   /* SIGHUP (caught, no-op) after d us of sleep */
    for (nfds_t i = 0; i < n; i++) {
        if (fds[i].fd != LFD && fds[i].fd < VFD0) {   /* a real descriptor (the daemon's exit pipe): ask the real kernel, without waiting */
            struct pollfd one = fds[i]; one.revents = 0; __real_poll(&one, 1, 0); fds[i].revents = one.revents; if (one.revents) r++; continue; }
        int v = fds[i].fd == LFD ? (k_acc ? 1 : 0) : fds[i].fd >= VFD0 ? KK(fds[i].fd)->rev : 0;
        short f = 0; if ((v & 1) && (fds[i].events & POLLIN)) f |= POLLIN; if ((v & 2) && (fds[i].events & POLLOUT)) f |= POLLOUT; if (v & 4) f |= POLLHUP; if (v & 8) f |= POLLERR; if (v & 16) f |= POLLNVAL;
        fds[i].revents = f; if (f) r++; }
    return r; }

static int devix_of_fd(int fd){ int ix = 0; if (!dev_getdevices()) return 0;
    ListIterator di = list_iterator_create(dev_getdevices()); Device *dev; int found = 0;
    while ((dev = list_next(di))) { if (dev->fd == fd) { found = 1; break; } ix++; }
    list_iterator_destroy(di); return (found && ix < MAXDEVS) ? ix : 0; }
static int naddrs(struct addrinfo *a){ int n = 0; for (; a; a = a->ai_next) n++; return n; }
static int curix(TcpDev *tcp){ int i = 0; for (struct addrinfo *a = tcp->addrs; a; a = a->ai_next, i++) if (a == tcp->cur) return i; return -1; }
static void dump_stmts(List l){
    ListIterator it = list_iterator_create(l); Stmt *s;
    while ((s = list_next(it))) {
        switch (s->type) {
        case STMT_SEND: printf(" send "); hexout((unsigned char*)s->u.send.fmt, strlen(s->u.send.fmt)); break;
        case STMT_EXPECT: printf(" expect %d", patid(s->u.expect.exp->xr_regex)); break;
        case STMT_DELAY: printf(" delay %ld", (long)s->u.delay.tv.tv_sec*1000000L + s->u.delay.tv.tv_usec); break;
        case STMT_SETPLUGSTATE: {
            printf(" setplugstate "); if (s->u.setplugstate.plug_name) hexout((unsigned char*)s->u.setplugstate.plug_name, strlen(s->u.setplugstate.plug_name)); else printf("null");
            printf(" %d %d %d", s->u.setplugstate.plug_name ? -1 : s->u.setplugstate.plug_mp, s->u.setplugstate.stat_mp, list_count(s->u.setplugstate.interps));
            ListIterator i2 = list_iterator_create(s->u.setplugstate.interps); StateInterp *si; while ((si = list_next(i2))) printf(" %d %d", (int)si->state, patid(si->re->xr_regex)); list_iterator_destroy(i2); break; }
        case STMT_SETRESULT: {
            printf(" setresult %d %d %d", s->u.setresult.plug_mp, s->u.setresult.stat_mp, list_count(s->u.setresult.interps));
            ListIterator i2 = list_iterator_create(s->u.setresult.interps); ResultInterp *ri; while ((ri = list_next(i2))) printf(" %d %d", (int)ri->result, patid(ri->re->xr_regex)); list_iterator_destroy(i2); break; }
        case STMT_FOREACHPLUG: printf(" foreachplug %d", list_count(s->u.foreach.stmts)); dump_stmts(s->u.foreach.stmts); break;
        case STMT_FOREACHNODE: printf(" foreachnode %d", list_count(s->u.foreach.stmts)); dump_stmts(s->u.foreach.stmts); break;
        case STMT_IFON: printf(" ifon %d", list_count(s->u.ifonoff.stmts)); dump_stmts(s->u.ifonoff.stmts); break;
        case STMT_IFOFF: printf(" ifoff %d", list_count(s->u.ifonoff.stmts)); dump_stmts(s->u.ifonoff.stmts); break;
        }
    }
    list_iterator_destroy(it);
}

static void dump(struct timeval *tv){
    static unsigned char tb[1<<20];
    ListIterator it = list_iterator_create(cli_clients); Client *c;
    while ((c = list_next(it))) {
        printf("C %d %d %d %d %d %d %d ", c->client_id, c->fd, (int)c->client_quit, (int)c->telemetry, (int)c->exprange, c->cmd ? c->cmd->pending : -1, c->cmd ? (int)c->cmd->error : -1);
        int m = cbuf_peek(c->to, tb, sizeof tb); if (m < 0) m = 0; hexout(tb, m); printf(" ");
        m = cbuf_peek(c->from, tb, sizeof tb); if (m < 0) m = 0; hexout(tb, m); printf("\n");
        if (c->cmd) { printf("A %d %d", c->client_id, c->cmd->com); hostlist_iterator_t hi = hostlist_iterator_create(c->cmd->hl); char *h;
            while ((h = hostlist_next(hi))) { Arg *a = arglist_find(c->cmd->arglist, h); printf(" "); hexout((unsigned char*)h, strlen(h)); printf(":%d:%d:", a ? (int)a->state : -1, a ? (int)a->result : -1); if (a && a->val) hexout((unsigned char*)a->val, strlen(a->val)); else printf("null"); free(h); }
            hostlist_iterator_destroy(hi); printf("\n"); } }
    list_iterator_destroy(it);
    { ListIterator di = list_iterator_create(dev_getdevices()); Device *dev; int ix = 0;
      while ((dev = list_next(di))) { int istcp = dev->connect == tcp_connect; TcpDev *tcp = (TcpDev *)dev->data;
        printf("O dev %d conn %d %d fd %d cur %d retry %d telnet %d\n", ix, (int)dev->connect_state, (int)dev->logged_in, dev->fd, istcp ? curix(tcp) : 0, dev->retry_count, istcp ? (int)tcp->tstate : 0);
        int m = cbuf_peek(dev->to, tb, sizeof tb); if (m < 0) m = 0; printf("O dev %d to ", ix); hexout(tb, m); printf("\n");
        m = cbuf_peek(dev->from, tb, sizeof tb); if (m < 0) m = 0; printf("O dev %d from ", ix); hexout(tb, m); printf("\n");
        printf("O dev %d queue", ix); { ListIterator i2 = list_iterator_create(dev->acts); Action *a; while ((a = list_next(i2))) printf(" %d:%d", a->com, a->client_id); list_iterator_destroy(i2); } printf("\n");
        /* harness-only line (not compared): identity and deadline start of each queued action; addresses are not reused while ASan's quarantine holds them */
        printf("I dev %d acts", ix); { ListIterator i2 = list_iterator_create(dev->acts); Action *a; while ((a = list_next(i2))) printf(" %lx:%ld", (unsigned long)a, (long)a->time_stamp.tv_sec*1000000L + a->time_stamp.tv_usec); list_iterator_destroy(i2); } printf("\n");
        ix++; }
      list_iterator_destroy(di); }
#ifdef __SANITIZE_ADDRESS__
    { extern size_t __sanitizer_get_current_allocated_bytes(void);    /* harness-only line (not compared): live heap */
      printf("I heap %zu\n", __sanitizer_get_current_allocated_bytes()); }
#endif
    if (tv) { if (timerisset(tv)) printf("O tmo %ld\n", (long)tv->tv_sec*1000000L + tv->tv_usec); else printf("O tmo none\n"); }
}


/* ---- the real powermand.c: main(), _select_loop(), the exit pipe and its signal handlers run as written.  Only cli_start() is
   replaced (the listener is descriptor LFD of the simulated kernel); the harness gets control where the daemon blocks: in xpoll(). */
static void harness_cli_start(bool use_stdio);
#define main pm_main
#define cli_start harness_cli_start
#include "powermand.c"
#undef main
#undef cli_start

static char line[1<<20];
static int last_op = 0;         /* 0: nothing yet, 'I', 'P' */
static int signalled = 0;
#define EACHK(i) for (int i = 0; i < MAXFD; i++) { if (i >= nacc && i < DFD0 - VFD0) { i = DFD0 - VFD0 - 1; continue; } if (i >= DFD0 - VFD0 + 1000 + 2*npair) break; if (i >= DFD0 - VFD0 + nsock && i < DFD0 - VFD0 + 1000) { i = DFD0 - VFD0 + 999; continue; }

/* read the next op and install the kernel's answers for the pass it describes (connect, soerr: digit strings, see k_ans).  I now connect soerr | P now acc connect soerr fd:rev:rk:hex:cap ... |
   Q [now acc connect soerr fd:...] : a termination signal arrives while the daemon sleeps in poll (with whatever else is ready) */
static int read_op(void){
    if (!fgets(line, sizeof line, stdin)) { fflush(stdout); _exit(0); }
    /* J n (harness-only state injection, used by the id-wrap scenario alone): the client id sequence continues at n, as if n-1
       connections had been accepted before - the only trace an accepted and closed connection leaves in the daemon */
    while (line[0] == 'J') { cli_id_seq = atoi(line + 2); if (!fgets(line, sizeof line, stdin)) { fflush(stdout); _exit(0); } }
    char op = line[0];
    EACHK(i) K[i].rev = 0; K[i].rk = 0; K[i].cap = 1 << 30; K[i].len = K[i].off = K[i].reads = K[i].readres = K[i].wlen = K[i].werr = K[i].wblock = K[i].writes = K[i].rblock = 0; }
    k_acc = 0; k_hup = -1; k_wstat = SIGTERM;
    char *tok = strtok(line + 1, " \n");
    if (tok) { long now = atol(tok); vt_us = 1000000000L + now;
        if (op != 'I') { tok = strtok(NULL, " \n"); k_acc = atoi(tok); }
        tok = strtok(NULL, " \n"); snprintf(k_con, sizeof k_con, "%s", tok); tok = strtok(NULL, " \n"); snprintf(k_soe, sizeof k_soe, "%s", tok); memset(n_con, 0, sizeof n_con); memset(n_soe, 0, sizeof n_soe);
        while ((tok = strtok(NULL, " \n"))) { int fd, rev, rk, cap; static char hex[8300];
            if (tok[0] == 'H') { k_hup = atol(tok + 1); vt_us -= k_hup; continue; }
            if (tok[0] == 'W') { k_wstat = atoi(tok + 1); continue; }    /* H<d>: the sleep is interrupted by SIGHUP d us after it began; `now` is the time poll finally returns */
            sscanf(tok, "%d:%d:%d:%8200[^:]:%d", &fd, &rev, &rk, hex, &cap);
            typeof(K[0]) *k = KK(fd); k->rev = rev; k->rk = rk; k->cap = cap; k->len = unhex(hex, k->data); } }
    return op;
}
/* what was read and written on each descriptor since the last op */
static void report_rw(void){
    EACHK(i)
        if (K[i].reads) printf("Y read %d %d%s\n", VFD0 + i, K[i].readres, K[i].rblock ? " BLOCKS" : "");
        if (K[i].writes) { printf("Y write %d ", VFD0 + i); hexout(K[i].w ? K[i].w : (unsigned char *)"", K[i].wlen); printf(" %s%s\n", K[i].werr ? "E" : "ok", K[i].wblock ? " BLOCKS" : ""); }
        K[i].reads = K[i].writes = 0; }
}
static void end_of_pass(struct timeval *tv){
    logrx = 0;
    report_rw();
    static struct timeval none; timerclear(&none);
    dump(last_op == 'P' ? (tv ? tv : &none) : NULL); printf(".\n"); fflush(stdout);
}
/* the daemon is about to sleep: the pass that just ended is reported, the next op says what wakes it up */
int __real_xpoll(xpollfd_t pfd, struct timeval *tv);
int __wrap_xpoll(xpollfd_t pfd, struct timeval *tv){
    end_of_pass(tv);
    int op = read_op();
    if (op == 'Q') { signalled = 1; raise(SIGTERM); }     /* the real handler writes to the real exit pipe */
    else last_op = 'P';
    logrx = 1;
    return __real_xpoll(pfd, tv);
}
static const char *disp(int sig){ struct sigaction sa; sigaction(sig, NULL, &sa); return sa.sa_handler == SIG_IGN ? "ign" : sa.sa_handler == SIG_DFL ? "dfl" : "handler"; }
static void harness_cli_start(bool use_stdio){
    /* `udmn conf stdio`: main() was given --stdio; what the real cli_start() does in that case, on simulated descriptors 1000 (in) and 1001 (out) */
    if (use_stdio) { nacc = 2; memset(KK(1000), 0, sizeof K[0]); memset(KK(1001), 0, sizeof K[0]); _create_client_stdio(); one_client = true; printf("STDIO 1000 1001\n"); }
    else { listen_fds = (int *)xmalloc(sizeof(int)); listen_fds[0] = LFD; listen_fds_len = 1; }
    { ListIterator di = list_iterator_create(dev_getdevices()); Device *dev;
      while ((dev = list_next(di))) {
        printf("DEV "); hexout((unsigned char*)dev->name, strlen(dev->name)); printf(" %d\n", dev->connect == tcp_connect ? 0 : 1);
        if (dev->connect == tcp_connect) printf("NA %d\n", naddrs(((TcpDev *)dev->data)->addrs));
        printf("T %ld\n", (long)dev->timeout.tv_sec*1000000L + dev->timeout.tv_usec);
        printf("SPEC "); hexout((unsigned char*)dev->name, strlen(dev->name)); printf(" "); hexout((unsigned char*)dev->specname, strlen(dev->specname)); printf("\n");
        printf("PP %ld\n", (long)dev->ping_period.tv_sec*1000000L + dev->ping_period.tv_usec);
        { PlugListIterator it = pluglist_iterator_create(dev->plugs); Plug *p; while ((p = pluglist_next(it))) { printf("G "); hexout((unsigned char*)p->name, strlen(p->name)); printf(" "); if (p->node) hexout((unsigned char*)p->node, strlen(p->node)); else printf("null"); printf("\n"); } pluglist_iterator_destroy(it); }
        for (int i = 0; i < NUM_SCRIPTS; i++) if (dev->scripts[i]) { printf("S %d %d", i, list_count(dev->scripts[i])); dump_stmts(dev->scripts[i]); printf("\n"); } }
      list_iterator_destroy(di); }
    if (conf_aliases) { ListIterator ai = list_iterator_create(conf_aliases); alias_t *a;
      while ((a = list_next(ai))) { printf("AL "); hexout((unsigned char*)a->name, strlen(a->name));
        hostlist_iterator_t hi = hostlist_iterator_create(a->hl); char *h;
        while ((h = hostlist_next(hi))) { printf(" "); hexout((unsigned char*)h, strlen(h)); free(h); }
        hostlist_iterator_destroy(hi); printf("\n"); }
      list_iterator_destroy(ai); }
    printf("V "); hexout((unsigned char*)PACKAGE_VERSION, strlen(PACKAGE_VERSION)); printf("\n");
    /* harness-only: what main() installed before it got here */
    printf("I sig TERM %s INT %s HUP %s PIPE %s\n", disp(SIGTERM), disp(SIGINT), disp(SIGHUP), disp(SIGPIPE));
    printf("READY\n"); fflush(stdout);
    int op = read_op();            /* the answers for dev_initial_connect(): must be the I op */
    if (op != 'I') { fprintf(stderr, "harness: first op must be I\n"); _exit(3); }
    last_op = 'I'; logrx = 1;
}

int main(int ac, char**av){
    setvbuf(stdout, NULL, _IOFBF, 1 << 20);
    char *args[] = { "udmn", "-c", av[1], "-s", NULL };
    int rc = pm_main(ac > 2 && !strcmp(av[2], "stdio") ? 4 : 3, args);      /* returns when _select_loop() was left through the exit pipe and cli_fini/dev_fini/conf_fini ran */
    logrx = 0;
    report_rw();                    /* --stdio: the loop was left in the middle of a pass (cli_server_done), not from poll */
    printf("I exit %d signalled %d\n", rc, signalled);
    printf("O teardown\n.\n"); fflush(stdout);
    return 0;
}
