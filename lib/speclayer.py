"""C17: the shipped specifications, instantiated by the real parser (translator), decided by the kernel; this layer is the
failing-input search: it evaluates the same `specOK` clause by clause on every script and names what fails."""
import collections, glob, os, re
from common import *
import translate

KIND = {0: 'login', 1: 'logout', 2: 'status', 3: 'status_all', 6: 'ping', 7: 'on', 8: 'on_ranged', 9: 'on_all', 10: 'off', 11: 'off_ranged', 12: 'off_all',
        13: 'cycle', 14: 'cycle_ranged', 15: 'cycle_all', 16: 'reset', 17: 'reset_ranged', 18: 'reset_all', 19: 'status_temp', 20: 'status_temp_all',
        21: 'status_beacon', 22: 'status_beacon_all', 23: 'beacon_on', 24: 'beacon_on_ranged', 25: 'beacon_off', 26: 'beacon_off_ranged', 27: 'resolve'}


class SpecLayer:
    name = 'shipped-specs'

    def build(self):
        translate.dumper()

    def run(self, prop, tier, seed):
        fails = translate.run_all()
        V = []; diffs = []
        for f in fails:
            if 'parser rejects' in f or 'no specification' in f or 'instantiated' in f:
                V.append(dict(sig='C17 specification not accepted by the real parser', detail=f, replay=dict(layer=self.name, what=f)))
        defs = ''
        names = []
        for p in sorted(glob.glob(os.path.join(translate.GEN, 'Specs', '*.lean'))):
            t = open(p).read()
            for m in re.finditer(r'^def (\w+) : SpecD := \{.*?\]\}\n', t, re.M | re.S):
                defs += m.group(0) + '\n'; names.append(m.group(1))
        # the capacity of the match object in this tree (MAX_MATCH_POS of device_private.h, as the translator read it): a shipped
        # script that reads a higher $N gets nothing from xregex_match_sub_strdup - the statement silently does nothing
        try:
            cap = int(re.search(r'def MAX_MATCH_POS : Nat := (\d+)', open(os.path.join(translate.GEN, 'Tables.lean')).read()).group(1))
        except Exception: cap = None
        if cap is not None:
            for m in re.finditer(r'^def (\w+) : SpecD := \{(.*?)\]\}\n', defs, re.M | re.S):
                fn = re.search(r'file := "([^"]*)"', m.group(2))
                for st_, a, b in re.findall(r'\.(setplugstate (?:true|false)|setresult) \((-?\d+)\) \((-?\d+)\)', m.group(2)):
                    hi = max(int(a), int(b))
                    if hi > cap:
                        V.append(dict(sig='C17 a shipped specification reads a capture group the match object cannot hold', specification=m.group(1), file=fn.group(1) if fn else '?',
                                      detail='$%d is read, the match object holds groups 0..%d (MAX_MATCH_POS)' % (hi, cap), replay=dict(layer=self.name, what='%s: $%d > MAX_MATCH_POS = %d' % (m.group(1), hi, cap))))
                        break
        # what the parser made of the delays, against the text of the files (read here, independently): every `delay <seconds>` of a
        # shipped file must be loaded with its stated time, fractions included
        def strip_comments(text):
            out = []; q = False
            for line in text.split('\n'):
                buf = ''
                for ch in line:
                    if ch == '"': q = not q
                    if ch == '#' and not q: break
                    buf += ch
                out.append(buf)
            return '\n'.join(out)
        for path in translate.spec_files():
            try: text = strip_comments(open(path, errors='replace').read())
            except OSError: continue
            want = sorted(round(float(x) * 1000000) for x in re.findall(r'\bdelay\s+([0-9]*\.?[0-9]+)', text))
            got = []
            for m in re.finditer(r'^def (\w+) : SpecD := \{(.*?)\]\}\n', defs, re.M | re.S):
                fn = re.search(r'file := "([^"]*)"', m.group(2))
                if fn and os.path.basename(fn.group(1)) == os.path.basename(path) and (os.path.dirname(path).endswith(os.path.dirname(fn.group(1))) or True):
                    got += [int(x) for x in re.findall(r'\.delay (\d+)', m.group(2))]
            if want and sorted(got) != want and len(got) == len(want):
                bad = [(w, g) for w, g in zip(want, sorted(got)) if w != g][:3]
                V.append(dict(sig='C17 a delay of a shipped specification is not loaded with its stated time', file=path, detail='stated/loaded (us): %r' % bad,
                              replay=dict(layer=self.name, what='%s: delays stated %r, loaded %r' % (path, want[:8], sorted(got)[:8]))))
        os.makedirs(os.path.join(BUILD, 'audit'), exist_ok=True)
        f = os.path.join(BUILD, 'audit', 'SpecEval_%d.lean' % os.getpid())
        with open(f, 'w') as fh:
            fh.write('import Pm.SpecCheck\nnamespace SpecEval\nopen Pm.SpecCheck\n' + defs)
            for n in names: fh.write('#eval ("%s", %s.file, %s.timeoutUs, specOK %s, report %s)\n' % (n, n, n, n, n))
        r = run(['lake', 'env', 'lean', f], cwd=LEAN)
        os.unlink(f)
        nscripts = 0; nspecs = 0; st = collections.Counter(); samples = []
        for m in re.finditer(r'\("(\w+)", "([^"]*)", (\d+), (true|false), \[(.*?)\]\)', re.sub(r'\s+', ' ', r.stdout).replace('( ', '(').replace('[ ', '[')):
            nspecs += 1
            name, fn, tmo, ok, rep = m.groups()
            kinds = re.findall(r'\((\d+), (true|false)\)', rep)
            nscripts += len(kinds)
            for k, o in kinds: st['script kind ' + KIND.get(int(k), k)] += 1
            if len(samples) < 2: samples.append(dict(specification=name, file=fn, scripts=[(KIND.get(int(k), k), o) for k, o in kinds][:8]))
            if ok == 'false':
                bad = [KIND.get(int(k), k) for k, o in kinds if o == 'false']
                why = ('scripts failing the static check: ' + ', '.join(bad)) if bad else ('no login script' if not any(k == '0' for k, o in kinds) else 'timeout not positive' if tmo == '0' else 'unknown script kind')
                V.append(dict(sig='C17 shipped specification fails the static check', specification=name, file=fn, detail=why, replay=dict(layer=self.name, what='%s in %s: %s' % (name, fn, why))))
        if nspecs != len(names) or r.returncode != 0:
            diffs.append(dict(kind='spec-evaluation-failed', detail=(r.stdout + r.stderr)[-800:]))
        for fl in fails:
            if not any(fl == v.get('detail') for v in V): diffs.append(dict(kind='translator', detail=fl))
        return dict(name=self.name, evaluations=nscripts, distinct=nscripts, samples=samples, stats=dict(sorted(st.items()), specifications=nspecs, files=len(translate.spec_files())),
                    diffs=diffs, violations=V, exhaustive=True,
                    rule='complete enumeration: every script of every specification in etc/devices/*.dev and t/etc/*.dev, instantiated by the real lexer/grammar/makeDevice/regcomp; one evaluation = one script checked; all are distinct')

    def replay(self, rp, v):
        print(rp.get('what')); return 1
