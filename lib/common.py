"""Shared infrastructure of the powerman verification checks.

Everything here is rebuilt from the *current working tree* of the repository
(VERIF_REPO, default /repo) on every run; nothing under the repository is
written.  Scratch output lives under /verif/.build (git-ignored).
"""
import fcntl, hashlib, json, os, re, shutil, subprocess, sys, time, glob

VERIF = os.path.dirname(os.path.dirname(os.path.abspath(__file__)))
REPO = os.environ.get('VERIF_REPO', '/repo')
CONFIG_H_DIR = os.path.join(REPO, 'config') if os.path.exists(os.path.join(REPO, 'config', 'config.h')) else '/repo/config'
SRC = os.path.join(REPO, 'src')
BUILD = os.path.join(VERIF, '.build')
LEAN = os.path.join(VERIF, 'lean')
LEANBIN = os.path.join(LEAN, '.lake', 'build', 'bin')
REPLAYS = os.path.join(VERIF, 'replays')
NCPU = os.cpu_count() or 4

SEED = int(os.environ.get('VERIF_SEED', '1') or 1)

STD_AXIOMS = {'propext', 'Classical.choice', 'Quot.sound'}

ASAN_ENV = dict(os.environ, ASAN_OPTIONS='detect_leaks=0:abort_on_error=0:exitcode=99', UBSAN_OPTIONS='halt_on_error=1:exitcode=98')


def log(*a):
    print(*a, file=sys.stderr, flush=True)


class Lock:
    def __init__(self, name):
        os.makedirs(BUILD, exist_ok=True)
        self.path = os.path.join(BUILD, name + '.lock')

    def __enter__(self):
        self.f = open(self.path, 'w')
        fcntl.flock(self.f, fcntl.LOCK_EX)
        return self

    def __exit__(self, *a):
        fcntl.flock(self.f, fcntl.LOCK_UN)
        self.f.close()


def sha(paths, extra=b''):
    h = hashlib.sha1()
    for p in sorted(paths):
        h.update(p.encode())
        try:
            with open(p, 'rb') as f:
                h.update(f.read())
        except OSError:
            h.update(b'<missing>')
    h.update(extra)
    return h.hexdigest()[:16]


def repo_sources():
    out = []
    for d in ('powerman', 'liblsd', 'libcommon', 'redfishpower', 'libczmq'):
        for ext in ('c', 'h', 'y', 'l', 'inc'):
            out += glob.glob(os.path.join(SRC, d, '*.' + ext))
    # generated parser sources in the tree are not inputs: they are regenerated from .y/.l
    out = [p for p in out if os.path.basename(p) not in ('parse_tab.c', 'parse_tab.h', 'parse_lex.c')]
    out.append(os.path.join(CONFIG_H_DIR, 'config.h'))
    return out


_tree_dir = None


def tree_dir():
    """scratch build directory keyed by the content of the repository sources and of /verif/harness"""
    global _tree_dir
    if _tree_dir:
        return _tree_dir
    hs = glob.glob(os.path.join(VERIF, 'harness', '*'))
    key = sha(repo_sources() + [p for p in hs if os.path.isfile(p)])
    d = os.path.join(BUILD, 't-' + key)
    with Lock('treedir'):
        if not os.path.isdir(d):
            # keep the scratch area small: drop all but the most recent trees - and never one that may still be in use by a
            # check running at the same time against another tree (seeded changes are tried in parallel)
            old = sorted(glob.glob(os.path.join(BUILD, 't-*')), key=os.path.getmtime)
            for o in old[:-6]:
                if time.time() - os.path.getmtime(o) > 3600: shutil.rmtree(o, ignore_errors=True)
            os.makedirs(d, exist_ok=True)
    _tree_dir = d
    return d


def run(cmd, **kw):
    kw.setdefault('capture_output', True)
    kw.setdefault('text', True)
    return subprocess.run(cmd, **kw)


class BuildError(Exception):
    pass


def gen_parser():
    """bison/flex from the working tree's .y/.l into the scratch dir"""
    d = tree_dir()
    with Lock('parser-' + os.path.basename(d)):
        if os.path.exists(os.path.join(d, 'parse_lex.c')) and os.path.exists(os.path.join(d, 'parse_tab.c')):
            return d
        r = run(['bison', '-y', '-d', '-o', os.path.join(d, 'parse_tab.c'), os.path.join(SRC, 'powerman', 'parse_tab.y')])
        if r.returncode != 0:
            raise BuildError('bison failed: ' + r.stderr[-2000:])
        r = run(['flex', '-o', os.path.join(d, 'parse_lex.c.tmp'), os.path.join(SRC, 'powerman', 'parse_lex.l')])
        if r.returncode != 0:
            raise BuildError('flex failed: ' + r.stderr[-2000:])
        os.rename(os.path.join(d, 'parse_lex.c.tmp'), os.path.join(d, 'parse_lex.c'))
    return d


INC = lambda: ['-DHAVE_CONFIG_H', '-I' + tree_dir(), '-I' + CONFIG_H_DIR, '-I' + os.path.join(SRC, 'liblsd'),
               '-I' + os.path.join(SRC, 'libcommon'), '-I' + os.path.join(SRC, 'powerman'), '-I' + os.path.join(SRC, 'redfishpower'),
               '-I' + os.path.join(SRC, 'libczmq'), '-I' + SRC]

SAN = ['-g', '-O0', '-fsanitize=address,undefined', '-fno-sanitize-recover=undefined', '-fno-omit-frame-pointer']


def S(rel):
    return os.path.join(SRC, rel)


def cc(out_name, sources, wraps=(), extra=(), san=True, defines=()):
    """compile a harness (cached in the tree dir).  `sources` may name files in /verif/harness,
    absolute paths, or 'gen:parse_tab.c' for the regenerated parser."""
    d = tree_dir()
    out = os.path.join(d, out_name)
    with Lock('cc-' + os.path.basename(d) + '-' + out_name):
        if os.path.exists(out):
            return out
        srcs = []
        for s in sources:
            if s.startswith('gen:'):
                gen_parser()
                srcs.append(os.path.join(d, s[4:]))
            elif os.path.isabs(s):
                srcs.append(s)
            else:
                srcs.append(os.path.join(VERIF, 'harness', s))
        cmd = ['gcc'] + (SAN if san else ['-g', '-O1']) + ['-w'] + INC() + ['-D' + x for x in defines] + srcs + list(extra)
        if wraps:
            cmd.append('-Wl,' + ','.join('--wrap=' + w for w in wraps))
        cmd += ['-o', out + '.tmp']
        r = run(cmd)
        if r.returncode != 0:
            raise BuildError('harness %s does not compile against the current tree:\n%s' % (out_name, r.stderr[-3000:]))
        os.rename(out + '.tmp', out)
    return out


# ---------------------------------------------------------------- Lean side

def lake_build(targets=('Pm', 'dmdriver', 'hldriver', 'rfdriver', 'lpdriver', 'cfdriver', 'lxdriver', 'cbdriver', 'srdriver', 'rfcmddriver', 'lldriver', 'lhdriver', 'grdriver')):
    with Lock('lake'):
        r = run(['lake', 'build'] + list(targets), cwd=LEAN)
    return r.returncode == 0, (r.stdout + r.stderr)


def strip_comments(text):
    # remove /- ... -/ (nested) and -- comments
    out = []
    i = 0
    depth = 0
    n = len(text)
    while i < n:
        if text.startswith('/-', i):
            depth += 1
            i += 2
        elif depth and text.startswith('-/', i):
            depth -= 1
            i += 2
        elif depth:
            i += 1
        elif text.startswith('--', i):
            j = text.find('\n', i)
            i = n if j < 0 else j
        else:
            out.append(text[i])
            i += 1
    return ''.join(out)


FORBIDDEN = re.compile(r'\bsorry\b|\badmit\b|^\s*axiom\s|\bnative_decide\b|\bbv_decide\b|implemented_by|\bunsafe\s|maxHeartbeats\s+0\b', re.M)


def library_files():
    """the modules the library root imports, transitively (files not imported by Pm.lean are not part of the library)"""
    seen = {}
    todo = [os.path.join(LEAN, 'Pm.lean')]
    while todo:
        f = todo.pop()
        if f in seen or not os.path.exists(f): continue
        seen[f] = True
        for m in re.finditer(r'^\s*import\s+(Pm(?:\.\w+)+)', open(f).read(), re.M):
            todo.append(os.path.join(LEAN, *m.group(1).split('.')) + '.lean')
    return list(seen)


def grep_forbidden():
    hits = []
    for p in library_files():
        t = strip_comments(open(p).read())
        # string literals may legitimately contain the words; drop them
        t = re.sub(r'"(\\.|[^"\\])*"', '""', t)
        for m in FORBIDDEN.finditer(t):
            hits.append('%s: %s' % (os.path.relpath(p, LEAN), m.group(0).strip()))
    return hits


def theorems_of(module_file):
    t = strip_comments(open(module_file).read())
    ns = []
    names = []
    for line in t.split('\n'):
        m = re.match(r'^\s*namespace\s+(\S+)', line)
        if m:
            ns.append(m.group(1))
            continue
        m = re.match(r'^\s*end\s+(\S+)', line)
        if m and ns and ns[-1] == m.group(1):
            ns.pop()
            continue
        m = re.match(r'^\s*(?:private\s+|protected\s+)?(?:theorem|lemma)\s+([^\s:({\[]+)', line)
        if m:
            names.append('.'.join(ns + [m.group(1)]))
    return names


def audit_axioms(module, names):
    """#print axioms on every theorem; returns {name: [axioms]} and the raw output"""
    os.makedirs(os.path.join(BUILD, 'audit'), exist_ok=True)
    f = os.path.join(BUILD, 'audit', 'Audit_%s_%d.lean' % (module.replace('.', '_'), os.getpid()))
    with open(f, 'w') as fh:
        fh.write('import %s\n' % module)
        for n in names:
            fh.write('#print axioms %s\n' % n)
    r = run(['lake', 'env', 'lean', f], cwd=LEAN)
    os.unlink(f)
    res = {}
    txt = r.stdout + r.stderr
    for m in re.finditer(r"'(\S+)' depends on axioms: \[([^\]]*)\]", txt):
        res[m.group(1)] = [a.strip() for a in m.group(2).replace('\n', ' ').split(',') if a.strip()]
    for m in re.finditer(r"'(\S+)' does not depend on any axioms", txt):
        res[m.group(1)] = []
    return res, txt, r.returncode


# ---------------------------------------------------------------- known findings

def known_findings():
    """entries `known: property=Cxx sig=<signature> <text>` and `fixed: property=Cxx <commit> <text>`"""
    p = os.path.join(VERIF, 'KNOWN_FINDINGS')
    known = []
    if os.path.exists(p):
        for line in open(p):
            line = line.strip()
            if line.startswith('known:'):
                m = re.match(r'known:\s+property=(\S+)\s+sig=(\S+)\s+(.*)', line)
                if m:
                    known.append(dict(prop=m.group(1), sig=m.group(2), text=m.group(3)))
    return known


def write_replay(prop, name, payload):
    os.makedirs(REPLAYS, exist_ok=True)
    path = os.path.join(REPLAYS, '%s-%s.json' % (prop, name))
    with open(path, 'w') as f:
        json.dump(payload, f, indent=1)
    return path


def write_evidence(prop, ev):
    # evidence describes runs against /repo itself; a run against another tree (VERIF_REPO, used to try seeded changes) keeps its
    # record out of the committed directory
    d = os.path.join(VERIF, 'evidence') if os.path.realpath(REPO) == '/repo' else os.path.join(BUILD, 'evidence-other-tree')
    os.makedirs(d, exist_ok=True)
    with open(os.path.join(d, prop + '.json'), 'w') as f:
        json.dump(ev, f, indent=1, sort_keys=False)


def pmap(fn, items, nproc=None):
    """run fn over items in forked workers (results must be picklable)"""
    import multiprocessing as mp
    nproc = nproc or min(NCPU, max(1, len(items)))
    if nproc == 1 or len(items) <= 1:
        return [fn(x) for x in items]
    with mp.get_context('fork').Pool(nproc) as pool:
        return pool.map(fn, items, chunksize=1)
