"""Structured view of the trace the C harness printed (never of the model's output):
per pass, what was delivered, what the real code read / wrote / opened / closed, and its state dump."""
import collections, re


def unhex(s):
    return b"" if s in ("-", "null") else bytes.fromhex(s)


class Pass:
    __slots__ = ('i', 'op', 'now', 'delivered', 'reads', 'writes', 'sys', 'clients', 'args', 'devs', 'interest', 'polltmo', 'tmo', 'died', 'raw', 'teardown', 'heap', 'hup', 'polltmos', 'connects')

    def __init__(self):
        self.delivered = {}; self.reads = {}; self.writes = {}; self.sys = []; self.clients = {}; self.args = {}
        self.devs = {}; self.interest = {}; self.polltmo = None; self.tmo = None; self.died = False; self.teardown = False; self.heap = None; self.hup = None; self.polltmos = []; self.connects = []


def parse(sim):
    out = []
    for i, (op, res) in enumerate(zip(sim['ops'], sim['couts'])):
        p = Pass(); p.i = i; p.op = op; p.raw = res
        t = op.split()
        p.now = int(t[1])
        if t[0] == "P":
            for part in t[5:]:
                if part.startswith("H"): p.hup = int(part[1:]); continue
                if part.startswith("W"): continue
                fd, rev, rk, hexs, cap = part.split(":")
                p.delivered[int(fd)] = dict(rev=int(rev), rk=int(rk), data=unhex(hexs), cap=int(cap))
        for l in res:
            w = l.split()
            if l == "DIED": p.died = True
            elif w[0] == "Y":
                if w[1] == "read":
                    fd = int(w[2]); n = int(w[3]); p.reads[fd] = n
                elif w[1] == "write":
                    fd = int(w[2]); p.writes[fd] = dict(data=unhex(w[3]), ok=(w[4] == "ok"), blocks=("BLOCKS" in l))
                p.sys.append(w[1:])
            elif w[0] == "C":
                p.clients[int(w[2])] = dict(id=int(w[1]), fd=int(w[2]), quit=w[3] == "1", tele=w[4] == "1", exp=w[5] == "1", pending=int(w[6]), error=int(w[7]), to=unhex(w[8]), frm=unhex(w[9]))
            elif w[0] == "A":
                cells = []
                for c in w[3:]:
                    n, st, rs, val = c.split(":")
                    cells.append((unhex(n), int(st), int(rs), None if val == "null" else unhex(val)))
                p.args[int(w[1])] = (int(w[2]), cells)
            elif w[0] == "O" and w[1] == "dev":
                di = int(w[2]); d = p.devs.setdefault(di, {})
                if w[3] == "conn":
                    d.update(conn=int(w[4]), logged=int(w[5]), fd=int(w[7]), cur=int(w[9]), retry=int(w[11]), telnet=int(w[13]))
                elif w[3] == "to": d['to'] = unhex(w[4])
                elif w[3] == "from": d['frm'] = unhex(w[4])
                elif w[3] == "queue": d['queue'] = [tuple(int(x) for x in a.split(":")) for a in w[4:]]
            elif w[0] == "I" and w[1] == "heap": p.heap = int(w[2])
            elif w[0] == "I" and w[1] == "connect": p.connects.append((int(w[2]), int(w[3])))      # (device, address index) of every connect()
            elif w[0] == "I" and w[1] == "dev" and w[3] == "acts": p.devs.setdefault(int(w[2]), {})['ids'] = [(x.split(':')[0], None if int(x.split(':')[1]) == 0 else int(x.split(':')[1]) - 1000000000) for x in w[4:]]   # the harness clock starts at 1000 s
            elif w[0] == "O" and w[1] == "interest": p.interest[int(w[2])] = int(w[3])
            elif w[0] == "O" and w[1] == "polltmo": p.polltmo = int(w[2]); p.polltmos.append(int(w[2]))
            elif w[0] == "O" and w[1] == "tmo": p.tmo = None if w[2] == "none" else int(w[2])
        out.append(p)
    td = sim.get('teardown')
    if td is not None:
        p = Pass(); p.i = len(out); p.op = 'Q'; p.raw = td; p.now = out[-1].now if out else 0
        p.teardown = True
        for l in td:
            w = l.split()
            if l == 'DIED': p.died = True
            elif w and w[0] == 'Y': p.sys.append(w[1:])
        out.append(p)
    return out
