"""hash correspondence: the real liblsd/hash.c (harness/u_hash.c: hash.c included, assertions on, ASan+UBSan) vs the bucket-level
Lean model Pm/LsdHash.lean (driver lhdriver = lean/LhMain.lean), op by op, complete state after every op (return values, count,
size, length of the node free list, every chain in order);
plus predicates evaluated on the C side's own answers only: a plain Python dict must hold exactly the keys and data of the
table after every op (insert refuses a key that is there - EEXIST - and keeps the old data; find / remove / count;
for_each counts the matching items; delete_if removes exactly the matching items and calls the deletion function on them;
destroy calls it on everything); every node sits in the slot hash_key_string (key) % size (computed here, 32-bit), no key twice,
count = number of nodes, live + free nodes = 256 * chunks.

powermand uses this table for the argument list of a command (arglist.c: key = node name): the generator draws node-like
names (prefix + number, so that many keys share a slot in small tables), long names (32-bit wrap of the hash), bytes >= 0x80.

    python3 lib/hashlayer.py [seed]     quick self-test from the project root
"""
import collections, os, random, select, subprocess, sys, tempfile
sys.path.insert(0, os.path.dirname(os.path.abspath(__file__)))
from common import *
from listlayer import CSide

_driver_built = False


def build():
    global _driver_built
    if not _driver_built:
        ok, out = lake_build(('lhdriver',))
        if not ok: raise BuildError('lake build lhdriver failed:\n' + out[-3000:])
        _driver_built = True
    return cc('u_hash', ['u_hash.c'], san=True)


def key_string(b):
    h = 0
    for c in b: h = (h + 31 * h + c) & 0xffffffff
    return h


def lean_side(ops, limit=300):
    try:
        r = subprocess.run([os.path.join(LEANBIN, 'lhdriver')], input=('\n'.join(ops) + '\n').encode(), capture_output=True, timeout=limit)
        out = r.stdout.decode().split('\n')[:-1]; err = r.stderr.decode('latin1')
    except subprocess.TimeoutExpired as e:
        out = (e.stdout or b'').decode().split('\n')[:-1]; err = 'HUNG'
    return out, err


def parse(ans):
    p = ans.split(' | ')
    if len(p) != 5: return p[0].split(' '), None
    slots = collections.OrderedDict()
    if p[4] != '-':
        for w in p[4].split(' '):
            s, c = w.split(':')
            slots[int(s)] = [(b'' if kv.split('=')[0] == '-' else bytes.fromhex(kv.split('=')[0]), int(kv.split('=')[1])) for kv in c.split(',')]
    return p[0].split(' '), dict(count=int(p[1]), size=int(p[2]), free=int(p[3]), slots=slots)


class Steer:
    def __init__(self, R, kind):
        self.R = R; self.kind = kind; self.nextd = 1
        self.pool = []

    def newkey(self):
        R = self.R; c = R.random()
        if c < 0.6: k = (R.choice(['n', 'node', 'pm-', 't']) + str(R.randint(0, 40 if self.kind != 'big' else 3000))).encode()
        elif c < 0.75: k = bytes(R.choice(b'abcxyz') for _ in range(R.randint(1, 3)))
        elif c < 0.85: k = bytes(R.randint(1, 255) for _ in range(R.randint(1, 6)))
        elif c < 0.95: k = (R.choice(['verylongnodename', 'cluster-rack-']) * R.randint(1, 6) + str(R.randint(0, 99))).encode()
        else: k = b''
        return k

    def next(self, st):
        R = self.R; r = R.random()
        keys = [k for c in st['slots'].values() for k, _ in c]
        if r < 0.45 or (self.kind == 'big' and r < 0.93 and st['count'] < 320) or (self.kind == 'big' and r < 0.7 and st['count'] < 700):
            k = self.newkey() if R.random() < 0.8 or not keys else R.choice(keys)
            d = self.nextd; self.nextd += R.choice([1, 1, 2, 3])
            return 'I %s %d' % (k.hex() or '-', d)
        if r < 0.65:
            k = R.choice(keys) if keys and R.random() < 0.7 else self.newkey()
            return 'F %s' % (k.hex() or '-')
        if r < 0.82:
            k = R.choice(keys) if keys and R.random() < 0.75 else self.newkey()
            return 'R %s' % (k.hex() or '-')
        if r < 0.87: return 'C'
        if r < 0.92: return 'E %d %d' % (R.choice([1, 2, 3, 5]), R.choice([0, 1]))
        if (r < 0.97 and self.kind != 'big') or (self.kind == 'big' and 0.985 < r < 0.995): return 'D %d %d' % (R.choice([2, 3, 5, 7, 1] if self.kind != 'big' else [5, 7, 11]), R.choice([0, 1, 2]))
        if r < 0.99: return 'C'
        return 'N %d %d' % (R.choice([1, 2, 3, 5, 7, 16, 0, -3, 100]), R.choice([0, 1]))


def gen_and_run_c(seed, k, fixed_ops=None):
    R = random.Random(seed)
    kind = ['tiny', 'small', 'tiny', 'default', 'small', 'big', 'tiny', 'small'][k % 8]
    size = dict(tiny=R.choice([1, 2, 3]), small=R.choice([5, 7, 11, 16]), default=0, big=R.choice([13, 64]))[kind]
    nops = dict(tiny=400, small=400, default=300, big=1500)[kind]
    C = CSide(build())
    ops = []; outs = []
    S = Steer(R, kind)
    first = 'N %d %d' % (size, R.choice([0, 1, 1]))
    seq = iter(fixed_ops) if fixed_ops is not None else None
    op = next(seq) if seq else first
    st = None
    while op is not None:
        a = C.ask(op)
        ops.append(op)
        if a is None: break
        outs.append(a)
        _, s = parse(a)
        if s is not None: st = s
        if seq is not None: op = next(seq, None); continue
        if len(ops) > nops: break
        if st is None: op = first; continue
        op = S.next(st)
    rc, err = C.close()
    return (kind, size), ops, outs, rc, err


def check_props(ops, outs, V, st):
    d = None; hasdel = 0; prev = None
    def bad(sig, i, **kw):
        V.append(dict(sig='C03 hash: ' + sig, at=i, op=ops[i][:120], answer=outs[i][:200], **kw))
    for i, (op, out) in enumerate(zip(ops, outs)):
        w = op.split(' '); k = w[0]
        a, s = parse(out)
        st['op ' + dict(N='create (after destroy)', I='insert', F='find', R='remove', C='count / is_empty', D='delete_if', E='for_each').get(k, k)] += 1
        if s is None: bad('unparsable answer', i); return
        res = [int(x) for x in a[1:] if x != '-']
        nodes = [(kk, dd, sl) for sl, c in s['slots'].items() for kk, dd in c]
        # ---- structure
        if s['count'] != len(nodes): bad('count differs from the number of nodes', i)
        for kk, dd, sl in nodes:
            if key_string(kk) % s['size'] != sl: bad('a node sits in the wrong slot', i, key=kk.hex(), slot=sl)
        if len(set(kk for kk, _, _ in nodes)) != len(nodes): bad('a key occurs twice', i)
        if s['count'] > 256: st['state: more than one chunk of nodes in use'] += 1
        if (s['free'] + s['count']) % 256 != 0: bad('live + free nodes is not a multiple of the chunk size (a node leaked)', i)
        if any(len(c) > 1 for c in s['slots'].values()): st['state: a chain with more than one node'] += 1
        # ---- the call on a dict
        if k == 'N':
            if d is not None:
                want = sorted(d.values()) if hasdel else []
                if sorted(res) != want: bad('hash_destroy: the deletion function was not called on exactly the items', i)
                # order: slot by slot, chain order
                if hasdel and prev is not None and res != [dd for c in prev['slots'].values() for _, dd in c]: bad('hash_destroy: order of deletion differs from slot / chain order', i)
            size = int(w[1]); hasdel = int(w[2]); d = {}
            if s['size'] != (size if size > 0 else 1213): bad('size', i)
            st['create: size %s' % ('default (1213)' if size <= 0 else '1..3' if size <= 3 else '5..16' if size <= 16 else 'larger')] += 1
        elif k == 'I':
            kk = b'' if w[1] == '-' else bytes.fromhex(w[1]); dd = int(w[2])
            if kk in d:
                if res != [0]: bad('insert of an existing key did not fail', i)
                st['insert: key exists (EEXIST)'] += 1
            else:
                if res != [dd]: bad('insert did not return the data', i)
                d[kk] = dd
                sl = key_string(kk) % s['size']
                if s['slots'].get(sl, [(None, None)])[0] != (kk, dd): bad('a new node is not the head of its chain', i)
                if prev and sl in prev['slots']: st['insert: into a non-empty chain'] += 1
                if len(kk) > 8: st['insert: long key (32-bit wrap of the hash)'] += 1
                if any(c >= 128 for c in kk): st['insert: key with bytes >= 0x80'] += 1
                if kk == b'': st['insert: empty key'] += 1
        elif k == 'F':
            kk = b'' if w[1] == '-' else bytes.fromhex(w[1])
            if res != [d.get(kk, 0)]: bad('find differs from the dict', i, want=d.get(kk, 0))
            st['find: %s' % ('found' if kk in d else 'not there')] += 1
        elif k == 'R':
            kk = b'' if w[1] == '-' else bytes.fromhex(w[1])
            if res != [d.get(kk, 0)]: bad('remove does not return the data of the key', i, want=d.get(kk, 0))
            if kk in d:
                sl = key_string(kk) % s['size']
                if prev and len(prev['slots'].get(sl, [])) > 1:
                    pos = [x[0] for x in prev['slots'][sl]].index(kk)
                    st['remove: %s of a chain' % ('head' if pos == 0 else 'last' if pos == len(prev['slots'][sl]) - 1 else 'middle')] += 1
                del d[kk]
            else: st['remove: not there'] += 1
        elif k == 'C':
            if res != [len(d), 1 if not d else 0]: bad('count / is_empty', i)
        elif k == 'E':
            m, r = int(w[1]), int(w[2])
            if res != [sum(1 for x in d.values() if x % m == r)]: bad('for_each count', i)
        elif k == 'D':
            m, r = int(w[1]), int(w[2]); gone = [x for x in d.values() if x % m == r]
            if res[:1] != [len(gone)]: bad('delete_if count', i)
            if sorted(res[1:]) != (sorted(gone) if hasdel else []): bad('delete_if: the deletion function was not called on exactly the deleted items', i)
            d = {kk: x for kk, x in d.items() if x % m != r}
            st['delete_if: %s' % ('nothing' if not gone else 'everything' if not d else 'some')] += 1
        if d is not None and d != {kk: dd for kk, dd, _ in nodes}: bad('the table differs from a dict', i, want=len(d), got=len(nodes)); d = {kk: dd for kk, dd, _ in nodes}
        if k in ('F', 'C', 'E') and prev is not None and s != prev: bad('a read-only call changed the table', i)
        if k != 'N' and prev is not None and s['free'] + s['count'] > prev['free'] + prev['count']:
            st['chunk of 256 nodes allocated'] += 1
            if prev['free'] != 0: bad('a chunk was allocated although free nodes were left', i)
        prev = s


def one(args):
    seed, k = args[:2]
    fixed = args[2] if len(args) > 2 else None
    cfg, ops, c_out, rc, err = gen_and_run_c(seed, k, fixed)
    l_out, lerr = lean_side(ops)
    diffs = []; V = []; st = collections.Counter()
    died = rc != 0 or len(c_out) < len(ops)
    for i in range(min(len(c_out), len(l_out))):
        if c_out[i] != l_out[i]:
            diffs.append(dict(at=i, kind='answer-differs', op=ops[i][:200], c=c_out[i][:300], lean=l_out[i][:300], history=[o[:80] for o in ops[max(0, i - 8):i]],
                              lines=[dict(c=c_out[i][:300], lean=l_out[i][:300])]))
            break
    if len(l_out) < len(c_out) and not diffs:
        diffs.append(dict(at=len(l_out), kind='model-did-not-answer', op=ops[len(l_out)][:200], stderr=lerr[-600:]))
    if died:
        i = len(c_out)
        st['runs ended by a death of the real code'] += 1
        cls = 'hang' if 'HUNG' in err else 'assertion' if 'Assertion' in err else 'sanitizer' if 'Sanitizer' in err or 'runtime error' in err else 'death'
        V.append(dict(sig='C03 hash: real code died (%s)' % cls, at=i, op=ops[i][:200] if i < len(ops) else '', detail=err[-1500:], history=[o[:80] for o in ops[max(0, i - 8):i]]))
        diffs.append(dict(at=i, kind='death-not-predicted', stderr=err[-1200:], op=ops[i][:200] if i < len(ops) else ''))
    try:
        check_props(ops[:len(c_out)], c_out, V, st)
    except Exception as e:
        import traceback
        V.append(dict(sig='predicate crashed: %r' % e, detail=traceback.format_exc()[-1200:]))
    for v in V:
        at = v.get('at', 0)
        v['replay'] = dict(layer='hash', seed=seed, k=k, ops=ops[:at + 1] if at < 600 else None, at=at)
    for dd in diffs: dd['replay'] = dict(layer='hash', seed=seed, k=k, at=dd['at'])
    sample = dict(seed=seed, config=cfg, ops=ops[:12], answers=[a[:100] for a in c_out[:12]])
    return dict(n=len(c_out), distinct=len(set(zip(ops, c_out))), diffs=diffs, violations=V, stats=st, sample=sample)


class HashLayer:
    name = 'hash'

    def __init__(self, quick=16, thorough=256):
        self.quick = quick; self.thorough = thorough

    def build(self):
        build()

    def run(self, prop, tier, seed):
        ns = self.quick if tier == 'quick' else self.thorough if tier == 'thorough' else self.quick * 4
        self.build()
        rs = pmap(one, [(seed * 15485863 + k * 32452843 + 31, k) for k in range(ns)])
        st = collections.Counter()
        for r in rs: st.update(r['stats'])
        return dict(name=self.name, evaluations=sum(r['n'] for r in rs), distinct=sum(r['distinct'] for r in rs), samples=[rs[0]['sample'], rs[min(3, len(rs) - 1)]['sample']],
                    stats=dict(sorted(st.items())), diffs=[d for r in rs for d in r['diffs']], violations=[v for r in rs for v in r['violations']],
                    rule='one evaluation = one hash API call on the real hash.c (create after destroy / insert / find / remove / count / for_each / delete_if), followed by the '
                         'complete state (count, size, free-list length, every chain in order), compared answer by answer with the bucket-level Lean model; %d runs: tables of 1..3 '
                         'slots (every key collides), 5..16 slots, the default 1213, long runs across the 256-node chunks; node-like names, long names, bytes >= 0x80, the empty key; '
                         'distinct = distinct (op, answer) pairs per run' % ns)

    def replay(self, rp, v):
        cfg, ops, c_out, rc, err = gen_and_run_c(rp['seed'], rp['k'], rp.get('ops'))
        l_out, lerr = lean_side(ops)
        at = rp.get('at', len(ops) - 1)
        print('configuration', cfg)
        for j in range(max(0, at - 10), min(len(ops), at + 2)):
            print(ops[j][:160]); print('   C   :', c_out[j][:300] if j < len(c_out) else '<dead>'); print('   Lean:', l_out[j][:300] if j < len(l_out) else '<none>')
        if rc != 0: print(err[-1500:])
        V = []; st = collections.Counter(); check_props(ops[:len(c_out)], c_out, V, st)
        for x in V[:5]: print('PREDICATE', json.dumps(x, default=str)[:900])
        return 1 if (V or rc != 0 or c_out != l_out[:len(c_out)]) else 0


if __name__ == '__main__':
    seed = int(sys.argv[1]) if len(sys.argv) > 1 else 1
    t0 = time.time()
    L = HashLayer()
    r = L.run('C03', 'quick', seed)
    for k2, v in r['stats'].items(): print('%8d  %s' % (v, k2))
    print('evaluations %d, distinct %d, disagreements %d, predicate violations %d, %.1fs' % (r['evaluations'], r['distinct'], len(r['diffs']), len(r['violations']), time.time() - t0))
    for d in r['diffs'][:3]: print('DIFF', json.dumps(d, default=str)[:1500])
    for v in r['violations'][:3]: print('VIOLATION', json.dumps({a: b for a, b in v.items() if a != 'replay'}, default=str)[:1500])
    sys.exit(1 if r['diffs'] or r['violations'] else 0)
