"""redfishpower --test-mode (the real binary, rebuilt from the working tree, driven over pipes) vs the Lean machine
model (`runCmd`) and vs the documented hierarchy rules as a pure Lean function (`specStat`/`specPower`)."""
import collections, os, random, subprocess, itertools
from common import *


def build():
    srcs = [S('redfishpower/redfishpower.c'), S('redfishpower/plugs.c')] + [S('liblsd/%s.c' % x) for x in ('hostlist', 'list', 'cbuf', 'hash')] + \
        [S('libcommon/%s.c' % x) for x in ('error', 'xmalloc', 'hprintf', 'fdutil', 'argv', 'xpoll', 'xread', 'xregex')] + \
        [S('libczmq/%s.c' % x) for x in ('zhashx', 'zlistx', 'zhash', 'zlist', 'czmq_internal')]
    return cc('redfishpower', srcs, extra=['-lcurl', '-ljansson'])


PROMPT = 'redfishpower> '


def gen_scenario(R, maxplugs):
    n = R.randint(1, maxplugs)
    nh = R.randint(1, max(1, n))
    plugs = []
    for i in range(n):
        parent = R.randrange(i) if i > 0 and R.random() < 0.7 else -1
        plugs.append((i, R.randrange(nh), parent))
    failing = [h for h in range(nh) if R.random() < 0.2]
    cmds = []
    if n >= 3 and R.random() < 0.35:
        # a history: everything switched on top-down one plug at a time, then ancestors switched off and on again and single levels
        # brought back, with stat of everything in between - stale state below a switched-off ancestor must never resurface
        failing = [] if R.random() < 0.7 else failing
        depth = {}
        for (i, h, par) in plugs: depth[i] = 0 if par < 0 else depth[par] + 1
        order = sorted(range(n), key=lambda i: depth[i])
        for i in order: cmds.append(('on', [i]))
        cmds.append(('stat', list(range(n))))
        nonleaf = [i for i in range(n) if any(par == i for (_, _, par) in plugs)]
        for _ in range(R.randint(3, 9)):
            r = R.random()
            if nonleaf and r < 0.3: cmds.append(('off', [R.choice(nonleaf)]))
            elif r < 0.7: cmds.append(('on', [R.randrange(n)]))
            elif r < 0.8: cmds.append(('off', [R.randrange(n)]))
            else: cmds.append(('stat', list(range(n))))
        cmds.append(('stat', list(range(n))))
        return dict(plugs=plugs, nh=nh, failing=failing, cmds=cmds, names=names_for(R, n, nh))
    for _ in range(R.randint(3, 9)):
        r = R.random()
        if r < 0.06:
            cmds.append(('raw', R.choice(['stat P[3-1]', 'on P[1-', 'stat Zz', 'setplugs P99', 'setplugs P98 77', 'setplugs P[0-1] [0-2]', 'bogus', 'on P[1-100000]', 'settimeout x'])))
            continue
        c = R.choice(['stat', 'on', 'off', 'on', 'off'])
        k = R.randint(1, min(n, 5))
        ts = [R.randrange(n) for _ in range(k)] if R.random() < 0.15 else R.sample(range(n), k)
        if R.random() < 0.12: ts.insert(R.randrange(len(ts) + 1), 99)
        cmds.append((c, ts))
    return dict(plugs=plugs, nh=nh, failing=failing, cmds=cmds, names=names_for(R, n, nh))


def pn(p): return 'Zz' if p == 99 else 'P%d' % p


def bernstein(name):
    h = 0
    for ch in name.encode(): h = ((33 * h) ^ ch) & 0xFFFFFFFFFFFFFFFF
    return h


POOL = ['%s%d' % (p, i) for p in ('chassis', 'Blade', 'Perif', 'Node', 'cmm', 'psu-', 'Rack', 'enc', 'slot_', 'gpu', 'sw', 'n', 'x-ib', 'Tray') for i in range(0, 30)] + ['cmm', 'enc', 'rack', 'A', 'b']


def names_for(R, n, nh):
    """how the plugs are called on the command line of the real helper (the model works on indices and prints P<i>; answers are
    mapped back): the default P<i>; the host names themselves (redfishpower starts with one plug per host, named like it, and
    `setplugs` replaces them); names as sites use them; and names chosen to fall into one bucket of the helper's hash tables
    (17 and more slots, Bernstein hash) so that chains grow and tables are rebuilt while plugs are being defined"""
    r = R.random()
    if r < 0.45: return ['P%d' % i for i in range(n)]
    if r < 0.6: return ['h%d' % i for i in range(n)]
    if r < 0.8: return R.sample(POOL, n)
    m = R.choice([17, 17, 3, 59])
    groups = collections.defaultdict(list)
    for x in POOL: groups[bernstein(x) % m].append(x)
    big = [g for g in groups.values() if len(g) >= n]
    return R.sample(R.choice(big), n) if big else R.sample(POOL, n)


def back(names, text):
    """answers of the helper with the plug names of the scenario mapped back to P<i>"""
    import re
    if not names or names[0] == 'P0' and all(x == 'P%d' % i for i, x in enumerate(names)): return text
    idx = {x: i for i, x in enumerate(names)}
    rx = re.compile(r'(?<![\w-])(?<!host=)(' + '|'.join(re.escape(x) for x in sorted(names, key=len, reverse=True)) + r')(?![\w-])')
    return rx.sub(lambda m: 'P%d' % idx[m.group(1)], text)


def run_c(binary, sc):
    lines = ['setstatpath s', 'setonpath o {x}', 'setoffpath f {y}']
    nm = sc.get('names') or ['P%d' % i for i in range(len(sc['plugs']))]
    def cn(t): return 'Zz' if t == 99 else nm[t]
    for (i, h, par) in sc['plugs']:
        lines.append('setplugs %s %d%s' % (nm[i], h, '' if par < 0 else ' ' + nm[par]))
    ncfg = len(lines)
    for c, ts in sc['cmds']:
        lines.append(ts if c == 'raw' else '%s %s' % (c, ','.join(cn(t) for t in ts)))
    args = [binary, '-h', 'h[0-%d]' % max(sc['nh'] - 1, 0), '--test-mode']
    if sc['failing']: args.append('--test-fail-power-cmd-hosts=' + ','.join('h%d' % h for h in sc['failing']))
    try:
        r = subprocess.run(args, input='\n'.join(lines) + '\n', capture_output=True, text=True, env=ASAN_ENV, timeout=20)
        out, err, rc, hung = r.stdout, r.stderr, r.returncode, False
    except subprocess.TimeoutExpired as e:
        out, err, rc, hung = (e.stdout or b'').decode() if isinstance(e.stdout, bytes) else (e.stdout or ''), '', -9, True
    # split at prompts: chunk k is the output of input line k-1 (chunk 0 precedes the first prompt)
    chunks = out.split(PROMPT)
    answers = [back(nm, a) for a in chunks[1 + ncfg:]] if len(chunks) > ncfg else []
    return answers, err, rc, hung, len(chunks) - 1, ncfg + len(sc['cmds'])


def run_lean(sc):
    lines = ['reset'] + ['plug %d %d %d' % p for p in sc['plugs']] + ['fail %d' % h for h in sc['failing']]
    for c, ts in sc['cmds']:
        if c != 'raw': lines.append('cmd %s %s' % (c, ','.join(str(t) for t in ts)))
    r = subprocess.run([os.path.join(LEANBIN, 'rfdriver')], input='\n'.join(lines) + '\n', capture_output=True, text=True)
    out = r.stdout.split('\n')
    res = []
    for i in range(0, len(out) - 1, 2):
        m = out[i]; s = out[i + 1]
        res.append((m, s))
    return res


def one(args):
    seed, n, maxplugs = args
    binary = build()
    R = random.Random(seed)
    diffs = []; V = []; st = collections.Counter(); ev = 0; distinct = set(); sample = None
    for k in range(n):
        sc = gen_scenario(R, maxplugs)
        answers, err, rc, hung, nprompts, nlines = run_c(binary, sc)
        lean = run_lean(sc)
        li = 0
        rp = dict(layer='redfish', scenario=sc)
        if hung:
            V.append(dict(sig='C19 helper did not return to its prompt (hung)', replay=rp)); continue
        if rc != 0:
            V.append(dict(sig='C19 helper terminated: rc=%d' % rc, detail=err[-800:], replay=rp)); continue
        if nprompts < nlines + 1:
            V.append(dict(sig='C19 fewer prompts than command lines', prompts=nprompts, lines=nlines, replay=rp)); continue
        for j, (c, ts) in enumerate(sc['cmds']):
            ev += 1
            got = sorted(l for l in answers[j].split('\n') if l) if j < len(answers) else None
            if c == 'raw':
                st['malformed command lines'] += 1
                if got is None: V.append(dict(sig='C19 no answer to a malformed line', line=ts, replay=rp))
                continue
            st['cmd ' + c] += 1
            if j == 0: st['plug names: ' + ('P<i>' if sc['names'][0] == 'P0' else 'host names' if sc['names'][0] == 'h0' else 'site-style or colliding in one hash bucket')] += 1
            distinct.add((c, tuple(ts), tuple(sc['plugs']), tuple(sc['failing'])))
            m, s = lean[li] if li < len(lean) else ('M ?', 'S ?'); li += 1
            mdone = m.split(' ')[1] if len(m.split(' ')) > 1 else '?'
            ml = sorted(x for x in m.split(' ', 2)[2].split('|') if x) if len(m.split(' ', 2)) > 2 else []
            sl = sorted(x for x in s.split(' ', 1)[1].split('|') if x) if len(s.split(' ', 1)) > 1 else []
            for l in got or []: st['line ' + ('dep' if 'dependency' in l else 'phased' if 'parent and child' in l else 'unknown' if l.startswith('unknown') else l.split(': ')[-1])] += 1
            # the rules (pure Lean function) evaluated against the real output: a disagreement is a property violation
            if got != sl:
                V.append(dict(sig='C19 output differs from the documented rules', cmd='%s %s' % (c, ','.join(pn(t) for t in ts)), got=got, rules=sl, replay=rp)); break
            # one line per targeted plug
            named = collections.Counter((l.split(': ')[1] if l.startswith('unknown plug') else l.split(':')[0]) for l in got)
            if named != collections.Counter(pn(t) for t in ts):
                V.append(dict(sig='C19 not exactly one line per targeted plug', cmd='%s %s' % (c, ts), got=got, replay=rp)); break
            if got != ml or mdone != 'true':
                diffs.append(dict(kind='machine-model-differs', cmd='%s %s' % (c, ts), c=got, lean=ml, done=mdone, replay=rp)); break
        if sample is None and len(sc['plugs']) >= 3:
            sample = dict(plugs=sc['plugs'], failing=sc['failing'], cmds=[(c, ts) for c, ts in sc['cmds'][:4]], answers=[a.strip().split('\n') for a in answers[:4]])
    return dict(n=ev, distinct=len(distinct), diffs=diffs, violations=V, stats=st, sample=sample)


class RedfishLayer:
    name = 'redfish'

    def __init__(self, quick=(16, 120, 8), thorough=(256, 400, 12)):
        self.quick = quick; self.thorough = thorough

    def build(self): build()

    def run(self, prop, tier, seed):
        ns, n, mp = self.quick if tier == 'quick' else self.thorough if tier == 'thorough' else (self.quick[0] * 4, self.quick[1], self.quick[2])
        self.build()
        rs = pmap(one, [(seed * 6101 + k * 7877 + 5, n, mp) for k in range(ns)])
        st = collections.Counter()
        for r in rs: st.update(r['stats'])
        return dict(name=self.name, evaluations=sum(r['n'] for r in rs), distinct=sum(r['distinct'] for r in rs), samples=[r['sample'] for r in rs if r['sample']][:1],
                    stats=dict(sorted(st.items())), diffs=[d for r in rs for d in r['diffs']], violations=[v for r in rs for v in r['violations']],
                    rule='one evaluation = one stat/on/off command (or malformed line) sent to the real redfishpower --test-mode, one process per random forest (<= %d plugs, any depth, shared and failing hosts, duplicate and unknown targets); output compared as a multiset with the Lean machine model and with the documented rules as a pure Lean function; distinct = distinct (forest, failing set, command, targets)' % mp)

    def replay(self, rp, v):
        sc = rp['scenario']
        sc['plugs'] = [tuple(p) for p in sc['plugs']]; sc['cmds'] = [tuple(c) for c in sc['cmds']]
        answers, err, rc, hung, npr, nl = run_c(build(), sc)
        lean = run_lean(sc)
        print('plugs (name, host, parent):', sc['plugs'], 'failing hosts:', sc['failing'])
        li = 0
        for j, (c, ts) in enumerate(sc['cmds']):
            print('>', c, ts); print('  C   :', answers[j].strip().split('\n') if j < len(answers) else '<none>')
            if c != 'raw' and li < len(lean): print('  Lean:', lean[li]); li += 1
        print('rc', rc, 'hung', hung, err[-500:])
        return 1
