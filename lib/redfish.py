"""redfishpower --test-mode (the real binary, rebuilt from the working tree, driven over pipes) vs the Lean machine
model (`runCmd`) and vs the documented hierarchy rules as a pure Lean function (`specStat`/`specPower`)."""
import collections, os, random, subprocess, itertools, time
from common import *


def build():
    srcs = [S('redfishpower/redfishpower.c'), S('redfishpower/plugs.c')] + [S('liblsd/%s.c' % x) for x in ('hostlist', 'list', 'cbuf', 'hash')] + \
        [S('libcommon/%s.c' % x) for x in ('error', 'xmalloc', 'hprintf', 'fdutil', 'argv', 'xpoll', 'xread', 'xregex')] + \
        [S('libczmq/%s.c' % x) for x in ('zhashx', 'zlistx', 'zhash', 'zlist', 'czmq_internal')]
    return cc('redfishpower', srcs, extra=['-lcurl', '-ljansson'])


PROMPT = 'redfishpower> '


def gen_scenario(R, maxplugs):
    n = R.randint(1, maxplugs)
    nh = R.randint(1, max(1, n))
    plugs = []
    for i in range(n):
        parent = R.randrange(i) if i > 0 and R.random() < 0.7 else -1
        plugs.append((i, R.randrange(nh), parent))
    failing = [h for h in range(nh) if R.random() < 0.2]
    cmds = []
    if n >= 3 and R.random() < 0.35:
        # a history: everything switched on top-down one plug at a time, then ancestors switched off and on again and single levels
        # brought back, with stat of everything in between - stale state below a switched-off ancestor must never resurface
        failing = [] if R.random() < 0.7 else failing
        depth = {}
        for (i, h, par) in plugs: depth[i] = 0 if par < 0 else depth[par] + 1
        order = sorted(range(n), key=lambda i: depth[i])
        for i in order: cmds.append(('on', [i]))
        cmds.append(('stat', list(range(n))))
        nonleaf = [i for i in range(n) if any(par == i for (_, _, par) in plugs)]
        for _ in range(R.randint(3, 9)):
            r = R.random()
            if nonleaf and r < 0.3: cmds.append(('off', [R.choice(nonleaf)]))
            elif r < 0.7: cmds.append(('on', [R.randrange(n)]))
            elif r < 0.8: cmds.append(('off', [R.randrange(n)]))
            else: cmds.append(('stat', list(range(n))))
        cmds.append(('stat', list(range(n))))
        return dict(plugs=plugs, nh=nh, failing=failing, cmds=cmds, names=names_for(R, n, nh))
    for _ in range(R.randint(3, 9)):
        r = R.random()
        if r < 0.06:
            cmds.append(('raw', R.choice(['stat P[3-1]', 'on P[1-', 'stat Zz', 'setplugs P99', 'setplugs P98 77', 'setplugs P[0-1] [0-2]', 'bogus', 'on P[1-100000]', 'settimeout x'])))
            continue
        c = R.choice(['stat', 'on', 'off', 'on', 'off'])
        k = R.randint(1, min(n, 5))
        ts = [R.randrange(n) for _ in range(k)] if R.random() < 0.15 else R.sample(range(n), k)
        if R.random() < 0.12: ts.insert(R.randrange(len(ts) + 1), 99)
        cmds.append((c, ts))
    return dict(plugs=plugs, nh=nh, failing=failing, cmds=cmds, names=names_for(R, n, nh))


def pn(p): return 'Zz' if p == 99 else 'P%d' % p


def bernstein(name):
    h = 0
    for ch in name.encode(): h = ((33 * h) ^ ch) & 0xFFFFFFFFFFFFFFFF
    return h


POOL = ['%s%d' % (p, i) for p in ('chassis', 'Blade', 'Perif', 'Node', 'cmm', 'psu-', 'Rack', 'enc', 'slot_', 'gpu', 'sw', 'n', 'x-ib', 'Tray') for i in range(0, 30)] + ['cmm', 'enc', 'rack', 'A', 'b']


def names_for(R, n, nh):
    """how the plugs are called on the command line of the real helper (the model works on indices and prints P<i>; answers are
    mapped back): the default P<i>; the host names themselves (redfishpower starts with one plug per host, named like it, and
    `setplugs` replaces them); names as sites use them; and names chosen to fall into one bucket of the helper's hash tables
    (17 and more slots, Bernstein hash) so that chains grow and tables are rebuilt while plugs are being defined"""
    r = R.random()
    if r < 0.45: return ['P%d' % i for i in range(n)]
    if r < 0.6: return ['h%d' % i for i in range(n)]
    if r < 0.8: return R.sample(POOL, n)
    m = R.choice([17, 17, 3, 59])
    groups = collections.defaultdict(list)
    for x in POOL: groups[bernstein(x) % m].append(x)
    big = [g for g in groups.values() if len(g) >= n]
    return R.sample(R.choice(big), n) if big else R.sample(POOL, n)


def back(names, text):
    """answers of the helper with the plug names of the scenario mapped back to P<i>"""
    import re
    if not names or names[0] == 'P0' and all(x == 'P%d' % i for i, x in enumerate(names)): return text
    idx = {x: i for i, x in enumerate(names)}
    rx = re.compile(r'(?<![\w-])(?<!host=)(' + '|'.join(re.escape(x) for x in sorted(names, key=len, reverse=True)) + r')(?![\w-])')
    return rx.sub(lambda m: 'P%d' % idx[m.group(1)], text)


def run_c(binary, sc):
    lines = ['setstatpath s', 'setonpath o {x}', 'setoffpath f {y}']
    nm = sc.get('names') or ['P%d' % i for i in range(len(sc['plugs']))]
    def cn(t): return 'Zz' if t == 99 else nm[t]
    for (i, h, par) in sc['plugs']:
        lines.append('setplugs %s %d%s' % (nm[i], h, '' if par < 0 else ' ' + nm[par]))
    ncfg = len(lines)
    for c, ts in sc['cmds']:
        lines.append(ts if c == 'raw' else '%s %s' % (c, ','.join(cn(t) for t in ts)))
    args = [binary, '-h', 'h[0-%d]' % max(sc['nh'] - 1, 0), '--test-mode']
    if sc['failing']: args.append('--test-fail-power-cmd-hosts=' + ','.join('h%d' % h for h in sc['failing']))
    try:
        r = subprocess.run(args, input='\n'.join(lines) + '\n', capture_output=True, text=True, env=ASAN_ENV, timeout=20)
        out, err, rc, hung = r.stdout, r.stderr, r.returncode, False
    except subprocess.TimeoutExpired as e:
        out, err, rc, hung = (e.stdout or b'').decode() if isinstance(e.stdout, bytes) else (e.stdout or ''), '', -9, True
    # split at prompts: chunk k is the output of input line k-1 (chunk 0 precedes the first prompt)
    chunks = out.split(PROMPT)
    answers = [back(nm, a) for a in chunks[1 + ncfg:]] if len(chunks) > ncfg else []
    return answers, err, rc, hung, len(chunks) - 1, ncfg + len(sc['cmds'])


def run_lean(sc):
    lines = ['reset'] + ['plug %d %d %d' % p for p in sc['plugs']] + ['fail %d' % h for h in sc['failing']]
    for c, ts in sc['cmds']:
        if c != 'raw': lines.append('cmd %s %s' % (c, ','.join(str(t) for t in ts)))
    r = subprocess.run([os.path.join(LEANBIN, 'rfdriver')], input='\n'.join(lines) + '\n', capture_output=True, text=True)
    out = r.stdout.split('\n')
    res = []
    for i in range(0, len(out) - 1, 2):
        m = out[i]; s = out[i + 1]
        res.append((m, s))
    return res


def one(args):
    seed, n, maxplugs = args
    binary = build()
    R = random.Random(seed)
    diffs = []; V = []; st = collections.Counter(); ev = 0; distinct = set(); sample = None
    for k in range(n):
        sc = gen_scenario(R, maxplugs)
        answers, err, rc, hung, nprompts, nlines = run_c(binary, sc)
        lean = run_lean(sc)
        li = 0
        rp = dict(layer='redfish', scenario=sc)
        if hung:
            V.append(dict(sig='C19 helper did not return to its prompt (hung)', replay=rp)); continue
        if rc != 0:
            V.append(dict(sig='C19 helper terminated: rc=%d' % rc, detail=err[-800:], replay=rp)); continue
        if nprompts < nlines + 1:
            V.append(dict(sig='C19 fewer prompts than command lines', prompts=nprompts, lines=nlines, replay=rp)); continue
        for j, (c, ts) in enumerate(sc['cmds']):
            ev += 1
            got = sorted(l for l in answers[j].split('\n') if l) if j < len(answers) else None
            if c == 'raw':
                st['malformed command lines'] += 1
                if got is None: V.append(dict(sig='C19 no answer to a malformed line', line=ts, replay=rp))
                continue
            st['cmd ' + c] += 1
            if j == 0: st['plug names: ' + ('P<i>' if sc['names'][0] == 'P0' else 'host names' if sc['names'][0] == 'h0' else 'site-style or colliding in one hash bucket')] += 1
            distinct.add((c, tuple(ts), tuple(sc['plugs']), tuple(sc['failing'])))
            m, s = lean[li] if li < len(lean) else ('M ?', 'S ?'); li += 1
            mdone = m.split(' ')[1] if len(m.split(' ')) > 1 else '?'
            ml = sorted(x for x in m.split(' ', 2)[2].split('|') if x) if len(m.split(' ', 2)) > 2 else []
            sl = sorted(x for x in s.split(' ', 1)[1].split('|') if x) if len(s.split(' ', 1)) > 1 else []
            for l in got or []: st['line ' + ('dep' if 'dependency' in l else 'phased' if 'parent and child' in l else 'unknown' if l.startswith('unknown') else l.split(': ')[-1])] += 1
            # the rules (pure Lean function) evaluated against the real output: a disagreement is a property violation
            if got != sl:
                V.append(dict(sig='C19 output differs from the documented rules', cmd='%s %s' % (c, ','.join(pn(t) for t in ts)), got=got, rules=sl, replay=rp)); break
            # one line per targeted plug
            named = collections.Counter((l.split(': ')[1] if l.startswith('unknown plug') else l.split(':')[0]) for l in got)
            if named != collections.Counter(pn(t) for t in ts):
                V.append(dict(sig='C19 not exactly one line per targeted plug', cmd='%s %s' % (c, ts), got=got, replay=rp)); break
            if got != ml or mdone != 'true':
                diffs.append(dict(kind='machine-model-differs', cmd='%s %s' % (c, ts), c=got, lean=ml, done=mdone, replay=rp)); break
        if sample is None and len(sc['plugs']) >= 3:
            sample = dict(plugs=sc['plugs'], failing=sc['failing'], cmds=[(c, ts) for c, ts in sc['cmds'][:4]], answers=[a.strip().split('\n') for a in answers[:4]])
    return dict(n=ev, distinct=len(distinct), diffs=diffs, violations=V, stats=st, sample=sample)



# ---------------------------------------------------------------------------------------------------------------------
# second scenario: whole sessions of raw input lines (configuration commands included) against the Lean command layer
# Pm/RfCmd.lean behind the driver rfcmddriver (lean/RfCmdMain.lean), byte for byte, plus predicates on the helper's own output.

HAZARDS_ALL = ('push_fail', 'undefined_parent', 'cycle', 'no_statpath', 'unmapped_path')
"""input lines that terminate or wedge the helper (findings of the command-layer model; each has a `_counterexample` theorem in
Props/C19.lean and an entry F40 / F41 / F42 in KNOWN_FINDINGS, whose signatures are the phrases in SIG_EXIT / check_session below).
They are generated (with a small probability each) unless switched off: RedfishLayer(hazards=(...)) or the environment variable
VERIF_RF_HAZARDS=none | push_fail,cycle,... (default: all):
  push_fail         setplugs with a plug name that does not parse as a hostlist again (`P[1]x[`): err_exit "hostlist_push failed"
  unmapped_path     plug name that parses to another name (`P[1]x[3]`); `setpath P1x3 ...`: err_exit "plugs_update_path failed"
  undefined_parent  stat/on/off of a plug below a parent that is not defined: assert(root_plugname) fails
  cycle             parent cycle: plugs_find_root_parent never returns
  no_statpath       a parent query / status poll of a plug without status path: the request waits for ever, no prompt
(F39, `settimeout` storing invalid / huge values, is repaired - 7f04ec7 - and such lines are ordinary malformed input now.)"""

SIG_EXIT = [('hostlist_push failed', 'C19 helper terminated by input: hostlist push failed (err_exit "hostlist_push failed": plug name re-parsed as a hostlist expression)'),
            ('cmd_timeout overflow', 'C19 helper terminated by input: cmd timeout overflow (F39 is back: settimeout stored an invalid value)'),
            ('root_plugname', 'C19 helper terminated by input: assertion root plugname failed (assert(root_plugname): parent plug not defined)'),
            ('plugs_update_path failed', 'C19 helper terminated by input: plugs update path failed (err_exit "setpath: plugs_update_path failed": plug known to the list, not to the map)'),
            ('AddressSanitizer', 'C19 helper terminated by input: memory error reported by AddressSanitizer'),
            ('runtime error', 'C19 helper terminated by input: undefined behaviour reported by UBSan')]


def hazards_enabled(choice=None):
    """the hazard kinds to generate: all by default; VERIF_RF_HAZARDS=none|all|a,b overrides the layer's own choice"""
    v = os.environ.get('VERIF_RF_HAZARDS')
    if v is None: return set(HAZARDS_ALL) if choice is None else set(x for x in choice if x in HAZARDS_ALL)
    if v == 'all': return set(HAZARDS_ALL)
    return set(x for x in v.split(',') if x in HAZARDS_ALL)


HANG_LIMIT = 3          # seconds a session may take on the real helper before it counts as hung (an ordinary one takes ~50 ms)


_cmddrv = None


def cmd_driver():
    global _cmddrv
    if _cmddrv is None:
        ok, out = lake_build(('rfcmddriver',))
        if not ok: raise BuildError('rfcmddriver does not build:\n' + out[-3000:])
        _cmddrv = os.path.join(LEANBIN, 'rfcmddriver')
    return _cmddrv


def fgets_split(data, size=256):
    """what successive fgets(buf, 256, stdin) calls return"""
    out = []; i = 0
    while i < len(data):
        j = data.find(b'\n', i, i + size - 1)
        k = j + 1 if j >= 0 else min(len(data), i + size - 1)
        out.append(data[i:k]); i = k
    return out


def c_words(piece):
    """argv_create(buf, ""): the C string (up to the first NUL) split at isspace() characters"""
    z = piece.find(b'\0')
    if z >= 0: piece = piece[:z]
    w = []; cur = b''
    for ch in piece:
        if ch in b' \t\n\v\f\r':
            if cur: w.append(cur); cur = b''
        else: cur += bytes([ch])
    if cur: w.append(cur)
    return w


import re as _re


def hl_expand(e):
    """names of a hostlist expression (hostlist_create + hostlist_next), None = hostlist_create refuses it.  Tokens end at a comma
    outside brackets; prefix = up to the first `[`, ranges = up to the next `]`, the rest of the token is the suffix"""
    toks = []; cur = b''; lvl = 0
    for ch in e:
        c = bytes([ch])
        if c == b',' and lvl == 0:
            if cur: toks.append(cur)
            cur = b''; continue
        if c == b'[': lvl += 1
        if c == b']': lvl -= 1
        cur += c
    if cur: toks.append(cur)
    out = []
    for t in toks:
        if b'[' not in t:
            if b']' in t: return None
            out.append(t); continue
        pre, rest = t.split(b'[', 1)
        if b']' not in rest: return None
        body, suf = rest.split(b']', 1)
        for r in body.split(b','):
            mm = _re.match(rb'^(\d+)(?:-(\d+))?$', r)
            if not mm: return None
            lo = min(int(mm.group(1)), 2 ** 64 - 1); hi = min(int(mm.group(2)), 2 ** 64 - 1) if mm.group(2) is not None else lo      # strtoul saturates
            if lo > hi or hi - lo >= 16384: return None
            w = len(mm.group(1))
            for k in range(lo, hi + 1): out.append(pre + (b'%0*d' % (w, k)) + suf)
    return out


class Oracle:
    """what the documentation says of the configuration commands, kept independently of the Lean model: the plug table (name ->
    host index, parent), in definition order; whether a status path is set; the stored time-out"""

    def __init__(self, nh):
        self.nh = nh; self.initial = True
        self.tbl = collections.OrderedDict(('h%d' % i, (i, None)) for i in range(nh))
        self.tbl = collections.OrderedDict((k.encode(), v) for k, v in self.tbl.items())
        self.statpath = False; self.ownstat = set(); self.timeout = 60; self.quit = False

    def copy(self):
        import copy
        o = copy.copy(self); o.tbl = collections.OrderedDict(self.tbl); o.ownstat = set(self.ownstat); return o

    def chain(self, n):
        """'root' | 'undef' | 'loops' for the way up from n"""
        seen = set()
        while True:
            if n not in self.tbl: return 'undef'
            if n in seen: return 'loops'
            seen.add(n)
            p = self.tbl[n][1]
            if p is None: return 'root'
            n = p

    def hazards(self):
        hz = set()
        for n in self.tbl:
            c = self.chain(n)
            if c == 'undef': hz.add('undefined_parent')
            if c == 'loops': hz.add('cycle')
        if not self.statpath and not all(n in self.ownstat for n in self.tbl): hz.add('no_statpath')
        for n in self.tbl:
            if b'[' in n or b']' in n: hz.add('unmapped_path')
        return hz

    def apply(self, piece):
        """the effect of one piece of input on the table; returns for stat/on/off the list of targets (or None)"""
        w = c_words(piece)
        if not w or self.quit: return None
        c, a = w[0], w[1:]
        if c == b'quit': self.quit = True
        elif c == b'setstatpath': self.statpath = bool(a)
        elif c == b'settimeout' and a:
            m = _re.match(rb'^[+-]?\d+$', a[0])
            if m and 0 < int(m.group(0)) <= 2 ** 31 - 1: self.timeout = int(m.group(0))      # stored only when valid (7f04ec7)
        elif c == b'setpath' and len(a) >= 3 and a[1] == b'stat':
            for n in hl_expand(a[0]) or []:
                if n not in self.tbl: break
                self.ownstat.add(n)
        elif c == b'setplugs' and len(a) >= 2:
            names = hl_expand(a[0]); idxs = hl_expand(a[1])
            if names is None or idxs is None: return None
            if self.initial:
                self.initial = False
                for i in range(self.nh): self.tbl.pop(b'h%d' % i, None)
            if len(names) != len(idxs):
                if len(names) > 1 and len(idxs) == 1: idxs = idxs * len(names)
                else: return None
            par = a[2] if len(a) > 2 else None
            for n, ix in zip(names, idxs):
                if not _re.match(rb'^[+-]?\d+$', ix): return None
                v = int(ix)
                if abs(v) >= 2 ** 63: return None
                v = (v + 2 ** 31) % 2 ** 32 - 2 ** 31
                if v < 0 or v >= self.nh: return None
                if n in self.tbl: self.tbl[n] = (v, par); self.ownstat.discard(n)
                else: self.tbl[n] = (v, par)
        elif c in (b'stat', b'on', b'off'):
            return list(self.tbl) if not a else hl_expand(a[0])
        return None


PFX = [b'Node', b'Blade', b'chassis', b'cmm', b'P', b'n', b'x-ib', b'slot_', b'psu-', b'R', b'Perif', b'enc']
BAD_EXPR = [b'P[3-1]', b'P[1-', b'P1]', b'P[a-b]', b'P[1--2]', b'P[]', b'[', b']', b'P[1-100000]', b'P[1,,2]', b'P[-1]', b'P[1-2', b'P[0-16384]', b'Node[0-3', b'a,b],c']
BAD_CMD = [b'bogus', b'STAT', b'stat,', b'onn', b'cycle P1', b'Quit', b'status', b'set plugs', b'?', b'stat\x80', b'\xff\xfe', b'setplug P1 0', b'helpp', b'0', b'-h']


def gen_session(R, hz=()):
    """a whole session of raw input lines: paths, a forest defined by several setplugs calls with ranges, then valid commands mixed
    with a malformed stream.  Lines that would terminate or wedge the helper (HAZARDS_ALL) are written only if their kind is in hz"""
    hz = set(hz)
    nh = R.randint(1, 6)
    failing = [h for h in range(nh) if R.random() < 0.2]
    o = Oracle(nh)
    lines = []

    def emit(l):
        """append a line if the table it leaves is safe (or its hazard is switched on)"""
        t = o.copy()
        for pc in fgets_split(l + b'\n'): t.apply(pc)
        if t.hazards() - o.hazards() - hz: return False
        lines.append(l)
        for pc in fgets_split(l + b'\n'): o.apply(pc)
        return True

    pre = [b'setstatpath redfish/v1/{{plug}}/stat']
    if R.random() < 0.92: pre.append(b'setonpath on/{{plug}} {"ResetType":"On"}')
    if R.random() < 0.92: pre.append(b'setoffpath off {x}')
    if R.random() < 0.1: pre.append(b'auth user:pw')
    if R.random() < 0.1: pre.append(b'setheader Content-Type:application/json')
    R.shuffle(pre)
    for l in pre: emit(l)
    if R.random() < 0.25: emit(b'stat')                     # the initial plugs, one per host
    used = set()

    def names_expr(k):
        while True:
            pfx = R.choice(PFX) + (b'%d-' % R.randint(0, 3) if R.random() < 0.2 else b'')
            if pfx not in used: break
        used.add(pfx)
        lo = R.randint(0, 12); w = R.choice([1, 1, 1, 2, 3])
        r = R.random()
        if k == 1 and r < 0.5: return pfx + b'%0*d' % (w, lo) if R.random() < 0.7 else pfx[:-1] + b'x'
        if r < 0.6: return pfx + b'[%0*d-%0*d]' % (w, lo, w, lo + k - 1)
        if r < 0.75: return b','.join(pfx + b'%d' % (lo + i) for i in range(k))
        if r < 0.85 and k >= 2: return pfx + b'[%d,%d-%d]' % (lo, lo + 1, lo + k - 1) if k > 2 else pfx + b'[%d,%d]' % (lo, lo + 1)
        return pfx + b'[%d-%d]b' % (lo, lo + k - 1)

    def idx_expr(k):
        r = R.random()
        if k > 1 and r < 0.25: return b'%d' % R.randrange(nh)
        a = R.randrange(nh)
        if a + k <= nh and r < 0.7: return b'[%d-%d]' % (a, a + k - 1) if k > 1 else b'%d' % a
        return b','.join(b'%d' % R.randrange(nh) for _ in range(k))

    prev = []
    for lv in range(R.randint(1, 3)):
        cur = []
        for g in range(R.randint(1, 2)):
            k = R.randint(1, 4)
            ne = names_expr(k)
            par = R.choice(prev) if prev and R.random() < 0.85 else None
            l = b'setplugs ' + ne + b' ' + idx_expr(k) + (b' ' + par if par else b'')
            if emit(l): cur += hl_expand(ne) or []
        prev = cur or prev
    if not o.tbl or o.initial:
        emit(b'setplugs P[0-1] 0')

    def known(): return list(o.tbl)

    def target_expr():
        ks = known()
        ts = [R.choice(ks) for _ in range(R.randint(1, 4))] if ks else []
        r = R.random()
        if r < 0.25: ts.insert(R.randrange(len(ts) + 1), R.choice([b'Zz', b'nosuch7', b'P99', b'h0', b'Node', b'\xe9t\xe9']))
        if r < 0.08: ts.append(ts[0])
        if 0.3 < r < 0.4 and ks:
            # a range around a known name with a numeric suffix: known and unknown ones mixed
            m = _re.match(rb'^(.*?)(\d+)$', R.choice(ks))
            if m and len(m.group(2)) < 6: return m.group(1) + b'[%d-%d]' % (max(0, int(m.group(2)) - 1), int(m.group(2)) + 2)
        return b','.join(ts)

    n = R.randint(6, 22)
    for _ in range(n):
        r = R.random()
        ks = known()
        if r < 0.42:
            c = R.choice([b'stat', b'on', b'off', b'on', b'off', b'stat'])
            emit(c if R.random() < 0.15 else c + b' ' + target_expr())
        elif r < 0.50: emit(R.choice(BAD_CMD))
        elif r < 0.56: emit(R.choice([b'setplugs', b'setplugs P1', b'setpath', b'setpath P1', b'setpath P1 stat', b'auth', b'settimeout', b'setonpath', b'setoffpath', b'setheader',
                                      b'stat a b c', b'quit now' if R.random() < 0.1 else b'help me', b'setplugs P[0-1] [0-1] Q extra words']))
        elif r < 0.62: emit(R.choice([b'stat ', b'on ', b'off ', b'setplugs ', b'setpath ']) + R.choice(BAD_EXPR) + R.choice([b'', b' 0', b' stat x']))
        elif r < 0.68:
            # count mismatch / bad host indices (the plugs before the bad index are defined)
            k = R.randint(2, 4)
            bad = R.choice([b'%d' % nh, b'99', b'-1', b'x', b'1x', b'+%d' % R.randrange(nh), b'4294967296', b'4294967295', b'2147483648', b'99999999999999999999', b'0x0', b'1.0', b'', b'007'])
            ne = names_expr(k)
            r2 = R.random()
            if r2 < 0.3: ie = b'[0-%d]' % k                                     # one index too many
            elif r2 < 0.4: ie = b'0,0' if k != 2 else b'0,0,0'
            else:
                xs = [b'%d' % R.randrange(nh) for _ in range(k)]; xs[R.randrange(k)] = bad
                ie = b','.join(x for x in xs if x) or b'0'
            par = R.choice(ks) if ks and R.random() < 0.4 else None
            emit(b'setplugs ' + ne + b' ' + ie + (b' ' + par if par else b''))
        elif r < 0.73 and ks:
            # redefinition: another host, another parent (kept acyclic by emit unless `cycle` is on), or no parent any more
            x = R.choice(ks); par = R.choice(ks + [None, None])
            emit(b'setplugs ' + x + b' %d' % R.randrange(nh) + (b' ' + par if par else b''))
        elif r < 0.77:
            emit(R.choice([b'', b' ', b'\t \t', b'\r', b'\v\f', b'  stat  ' + target_expr() + b' \t', b'\tstat\t' + target_expr(), b'stat ' + target_expr() + b'\r',
                           b'stat\0 ' + target_expr(), b'\0stat', b'st\0at', b'on ' + target_expr() + b'\0junk junk']))
        elif r < 0.81:
            # very long lines: fgets cuts them into pieces of 255 bytes, each piece is a command line of its own
            kind = R.random()
            if kind < 0.4: emit(b'stat ' + b','.join(R.choice(ks or [b'Zz']) for _ in range(R.randint(40, 90))))
            elif kind < 0.6: emit(b'bogus' + b'x' * R.randint(240, 700))
            elif kind < 0.8: emit(b'stat ' + b'L' * R.randint(100, 240) + b'[1-3]')
            else: emit(b'setplugs ' + R.choice(PFX) + b'L' * R.randint(60, 180) + b'%d' % R.randint(0, 9) + b' 0')
        elif r < 0.86 and ks:
            sub = R.choice(ks)
            emit(R.choice([b'setpath ' + sub + b' stat own/{{plug}}/s', b'setpath ' + sub + b' on own/on {"a":1}', b'setpath ' + sub + b' off own/off',
                           b'setpath ' + sub + b' cycle x', b'setpath Zz stat x', b'setpath ' + sub + b',Zz,' + sub + b' on p', b'setpath ' + sub + b' ON x']))
        elif r < 0.90: emit(R.choice([b'settimeout 5', b'settimeout 0', b'settimeout -5', b'settimeout x', b'settimeout 10x', b'settimeout 1000000000', b'settimeout +7',
                                      b'settimeout 99999999999999999999', b'settimeout 9223372036854775807', b'settimeout 2147483648', b'settimeout 2147483647',
                                      b'settimeout -99999999999999999999', b'settimeout 9223372036854775808']))
        elif r < 0.92: emit(b'help')
        elif r < 0.925: emit(R.choice([b'stat P[99999999999999999999]', b'on P[00000000000000000001-00000000000000000002]', b'setplugs Q[18446744073709551616] 0']))
        # ---- lines that terminate or wedge the unchanged helper: only when switched on
        elif 0.925 <= r < 0.935 and 'push_fail' in hz: emit(R.choice([b'setplugs P[1]x[ 0', b'setplugs Q[1-2]]a 0', b'setplugs P[1]]a,b[ 0', b'setplugs P[1-2]-[ 0']))
        elif 0.935 <= r < 0.945 and 'unmapped_path' in hz:
            emit(b'setplugs P[1]x[3] 0'); emit(R.choice([b'stat P1x3', b'stat P[1]x[3]', b'setpath P1x3 stat s']))
        elif 0.97 <= r < 0.98 and 'undefined_parent' in hz: emit(b'setplugs U[0-1] 0 NotThere')
        elif 0.98 <= r < 0.985 and 'cycle' in hz and ks:
            x = R.choice(ks); emit(b'setplugs ' + x + b' 0 ' + R.choice(ks))
        elif r >= 0.995 and 'no_statpath' in hz: emit(b'setstatpath')
    if R.random() < 0.3:
        emit(b'quit'); 
        if R.random() < 0.5: emit(b'stat')
    data = b'\n'.join(lines) + (b'\n' if R.random() < 0.9 else b'')
    return dict(nh=nh, failing=failing, data=data.decode('latin-1'))


def run_session_c(binary, sc):
    args = [binary, '-h', 'h[0-%d]' % (sc['nh'] - 1), '--test-mode']
    if sc['failing']: args.append('--test-fail-power-cmd-hosts=' + ','.join('h%d' % h for h in sc['failing']))
    data = sc['data'].encode('latin-1')
    try:
        r = subprocess.run(args, input=data, capture_output=True, env=ASAN_ENV, timeout=HANG_LIMIT)
        return r.stdout, r.stderr.decode('latin-1'), r.returncode, False
    except subprocess.TimeoutExpired as e:
        return e.stdout or b'', (e.stderr or b'').decode('latin-1'), -9, True


def run_session_lean(sc):
    args = [cmd_driver(), '-h', 'h[0-%d]' % (sc['nh'] - 1), '-n', str(int(time.time()))]
    if sc['failing']: args += ['-E', ','.join('h%d' % h for h in sc['failing'])]
    r = subprocess.run(args, input=sc['data'].encode('latin-1'), capture_output=True, timeout=120)
    ctl = [l for l in r.stderr.decode('latin-1').split('\n') if l.startswith('CTL ')]
    if r.returncode != 0 or not ctl: raise RuntimeError('rfcmddriver failed: rc=%d %s' % (r.returncode, r.stderr[-400:]))
    w = ctl[0].split(' ', 3)
    return r.stdout, w[1], int(w[2]), (w[3] if len(w) > 3 else '')


PROMPTB = PROMPT.encode()
_RES = _re.compile(rb'^(?:unknown plug specified: (.*)|(.*?): .*)$')


def check_session(sc, cout, cerr, rc, hung, V, st, lean=None):
    """predicates on the helper's own output: it ends only by quit / end of input, prints one prompt per piece of input it reads
    (one per line, for lines of up to 254 bytes), one line per target of a stat/on/off (an `unknown plug specified` line exactly
    for the targets the configuration does not define), and `type "help"` exactly for the unknown commands"""
    data = sc['data'].encode('latin-1')
    pieces = fgets_split(data)
    rp = dict(layer='redfish', session=sc)
    if hung:
        # which kind of table the helper was wedged on (by the oracle's own bookkeeping, up to the last prompt seen)
        o = Oracle(sc['nh'])
        for pc in pieces[:max(0, len(cout.split(PROMPTB)) - 1)]: o.apply(pc)
        hzs = o.hazards()
        why = 'cycle in the plug table' if 'cycle' in hzs else 'a plug without status path is polled or queried' if 'no_statpath' in hzs else 'not explained'
        V.append(dict(sig='C19 helper hangs: ' + why, model=('%s %s' % (lean[1], lean[3]) if lean else None), replay=rp)); return False
    if rc != 0:
        sig = next((s for k, s in SIG_EXIT if k in cerr), 'C19 helper terminated by input: rc=%d' % rc)
        V.append(dict(sig=sig, detail=cerr[-600:], replay=rp)); return False
    chunks = cout.split(PROMPTB)
    o = Oracle(sc['nh'])
    nq = next((i for i, pc in enumerate(pieces) if c_words(pc)[:1] == [b'quit']), None)
    want = len(pieces) + 1 if nq is None else nq + 1
    if len(chunks) - 1 != want:
        V.append(dict(sig='C19 not one prompt per input line', prompts=len(chunks) - 1, expected=want, replay=rp)); return False
    if chunks[0] != b'':
        V.append(dict(sig='C19 output before the first prompt', replay=rp)); return False
    for i, pc in enumerate(pieces[:want - (0 if nq is not None else 1)] if nq is None else pieces[:nq + 1]):
        ans = chunks[i + 1] if i + 1 < len(chunks) else b''
        w = c_words(pc)
        ts = o.apply(pc)
        known = set(o.tbl)
        lines = [l for l in ans.split(b'\n') if l]
        st['session lines'] += 1
        if any(b'[' in n or b']' in n for n in known):
            # F40 (known): such a plug is filed under another name in the helper's list than in its map - it is reported `not mapped`
            # or unknown; the per-target predicates below do not describe that (the byte-for-byte comparison with the model still does)
            st['session line after a plug name with brackets (F40): per-target predicates skipped'] += 1
            continue
        if w and w[0] in (b'stat', b'on', b'off'):
            st['session ' + w[0].decode()] += 1
            if ts is None:
                if lines != [b'illegal hosts input'] and len(w) > 1 and not _re.search(rb'\d{19}', w[1]):
                    V.append(dict(sig='C19 malformed target expression not answered by `illegal hosts input`', piece=repr(pc), got=repr(ans[:300]), replay=rp)); return False
                st['session malformed target expression'] += 1
                continue
            named = collections.Counter(); unk = collections.Counter()
            for l in lines:
                m = _RES.match(l)
                if not m:
                    V.append(dict(sig='C19 unexpected output line for stat/on/off', line=repr(l), replay=rp)); return False
                if m.group(1) is not None: unk[m.group(1)] += 1
                else: named[m.group(2)] += 1
            wk = collections.Counter(t for t in ts if t in known); wu = collections.Counter(t for t in ts if t not in known)
            if named != wk:
                V.append(dict(sig='C19 not exactly one result line per targeted known plug', piece=repr(pc), got=repr(ans[:400]), replay=rp)); return False
            if unk != wu:
                V.append(dict(sig='C19 not exactly one `unknown plug specified` line per unknown target', piece=repr(pc), got=repr(ans[:400]), replay=rp)); return False
            st['session targets known'] += sum(wk.values()); st['session targets unknown'] += sum(wu.values())
        elif w and w[0] not in (b'help', b'quit', b'auth', b'setheader', b'setstatpath', b'setonpath', b'setoffpath', b'setplugs', b'setpath', b'settimeout'):
            st['session unknown command'] += 1
            if lines != [b'type "help" for a list of commands']:
                V.append(dict(sig='C19 unknown command not answered by the help hint', piece=repr(pc), got=repr(ans[:200]), replay=rp)); return False
        elif not w:
            st['session empty line'] += 1
            if lines:
                V.append(dict(sig='C19 empty line answered', piece=repr(pc), got=repr(ans[:200]), replay=rp)); return False
        elif w[0] in (b'setplugs', b'setpath', b'settimeout', b'auth'):
            if lines: st['session diagnostic: ' + _re.sub(r'\d+', 'N', ' '.join(lines[0].decode('latin-1').split()[:4]))[:60]] += 1
            if len(lines) > 1:
                V.append(dict(sig='C19 more than one diagnostic for a configuration command', piece=repr(pc), got=repr(ans[:300]), replay=rp)); return False
    return True


def one_session(args):
    seed, n, hz = args
    binary = build(); cmd_driver()
    R = random.Random(seed)
    diffs = []; V = []; st = collections.Counter(); ev = 0; distinct = set(); sample = None
    for k in range(n):
        sc = gen_session(R, hz)
        cout, cerr, rc, hung = run_session_c(binary, sc)
        lout, kind, npieces, detail = run_session_lean(sc)
        rp = dict(layer='redfish', session=sc)
        pieces = fgets_split(sc['data'].encode('latin-1'))
        ev += len(pieces); distinct.add(sc['data'])
        st['sessions'] += 1; st['session model outcome: ' + kind] += 1
        ok = check_session(sc, cout, cerr, rc, hung, V, st, (lout, kind, npieces, detail))
        # the tie: the same bytes
        agree = True
        if kind == 'cont': agree = (not hung and rc == 0 and cout == lout)
        elif kind == 'exit': agree = (not hung and rc == int(detail.split()[0]) and cout == lout)
        elif kind == 'abort': agree = (not hung and rc not in (0, 1) and cout == lout)
        elif kind == 'hang': agree = (hung and cout == lout)
        elif kind == 'outside': agree = cout.startswith(lout)
        if not agree:
            cc_ = cout.split(PROMPTB); ll = lout.split(PROMPTB)
            j = next((i for i in range(min(len(cc_), len(ll))) if cc_[i] != ll[i]), min(len(cc_), len(ll)))
            diffs.append(dict(kind='session-model-differs', at=j, piece=repr(pieces[j - 1]) if 0 < j <= len(pieces) else None, model_outcome='%s %s' % (kind, detail),
                              c_outcome='hung' if hung else 'rc=%d' % rc,
                              lines=[dict(c=(cc_[j] if j < len(cc_) else b'<none>').decode('latin-1')[:400], lean=(ll[j] if j < len(ll) else b'<none>').decode('latin-1')[:400])], replay=rp))
        if sample is None and ok and len(pieces) > 8:
            sample = dict(session=[repr(p)[2:-1][:80] for p in pieces[:10]], answers=[a.decode('latin-1').strip().split('\n')[:4] for a in cout.split(PROMPTB)[1:11]])
    return dict(n=ev, distinct=len(distinct), diffs=diffs, violations=V, stats=st, sample=sample)


class RedfishLayer:
    name = 'redfish'

    def __init__(self, quick=(16, 120, 8), thorough=(256, 400, 12), sessions_quick=(16, 40), sessions_thorough=(64, 100), hazards=None):
        self.quick = quick; self.thorough = thorough
        self.sessions_quick = sessions_quick; self.sessions_thorough = sessions_thorough     # (processes, sessions each)
        self.hazards = None if hazards is None else tuple(hazards)      # None = every kind in HAZARDS_ALL

    def build(self): build()

    def run(self, prop, tier, seed):
        ns, n, mp = self.quick if tier == 'quick' else self.thorough if tier == 'thorough' else (self.quick[0] * 4, self.quick[1], self.quick[2])
        self.build()
        rs = pmap(one, [(seed * 6101 + k * 7877 + 5, n, mp) for k in range(ns)])
        # whole sessions of raw lines (configuration commands, malformed stream) against the command-layer model
        cmd_driver()
        sp, sn = self.sessions_quick if tier == 'quick' else self.sessions_thorough if tier == 'thorough' else (self.sessions_quick[0] * 4, self.sessions_quick[1])
        hz = tuple(sorted(hazards_enabled(self.hazards)))
        rs += pmap(one_session, [(seed * 9109 + k * 3571 + 11, sn, hz) for k in range(sp)])
        st = collections.Counter()
        for r in rs: st.update(r['stats'])
        return dict(name=self.name, evaluations=sum(r['n'] for r in rs), distinct=sum(r['distinct'] for r in rs), samples=[r['sample'] for r in rs if r['sample']][:1],
                    stats=dict(sorted(st.items())), diffs=[d for r in rs for d in r['diffs']], violations=[v for r in rs for v in r['violations']],
                    rule='one evaluation = one stat/on/off command (or malformed line) sent to the real redfishpower --test-mode, one process per random forest (<= %d plugs, any depth, shared and failing hosts, duplicate and unknown targets); output compared as a multiset with the Lean machine model and with the documented rules as a pure Lean function; distinct = distinct (forest, failing set, command, targets).  Second scenario (statistics `session ...`): whole sessions of raw input lines - paths, a forest defined by several setplugs calls with ranges, then stat/on/off over hostlist expressions mixed with a malformed stream (unknown commands, wrong argument counts, count mismatch, bad host indices, malformed and oversized ranges, unknown and duplicate targets, redefinitions, empty / blank / NUL-bearing / over-long lines) - fed byte for byte to the real helper and to the Lean command layer Pm/RfCmd.lean (rfcmddriver), whole transcripts compared byte for byte (one evaluation = one piece of input as fgets returns it), plus predicates on the output of the helper itself: ends only by quit / end of input, one prompt per piece, one result line per targeted known plug, one `unknown plug specified` line per unknown target; hazard lines switched on: %s' % (mp, ','.join(sorted(hazards_enabled(self.hazards))) or 'none'))

    def replay(self, rp, v):
        if 'session' in rp:
            sc = rp['session']
            cout, cerr, rc, hung = run_session_c(build(), sc)
            lout, kind, npieces, detail = run_session_lean(sc)
            pieces = fgets_split(sc['data'].encode('latin-1'))
            print('hosts h[0-%d], failing hosts %s' % (sc['nh'] - 1, sc['failing']))
            cc_ = cout.split(PROMPTB); ll = lout.split(PROMPTB)
            for i, pc in enumerate(pieces):
                print('>', repr(pc)[2:-1])
                a = cc_[i + 1] if i + 1 < len(cc_) else None; b = ll[i + 1] if i + 1 < len(ll) else None
                print('  C   :', a.decode('latin-1').split('\n')[:-1] if a is not None else '<none>')
                if a != b: print('  Lean:', b.decode('latin-1').split('\n')[:-1] if b is not None else '<none>')
            print('helper: rc', rc, 'hung', hung, cerr[-500:].strip())
            print('model : %s after %d pieces %s' % (kind, npieces, detail))
            V = []; check_session(sc, cout, cerr, rc, hung, V, collections.Counter(), (lout, kind, npieces, detail))
            for x in V: print('predicate:', x['sig'], {k: x[k] for k in x if k not in ('sig', 'replay')})
            return 1
        sc = rp['scenario']
        sc['plugs'] = [tuple(p) for p in sc['plugs']]; sc['cmds'] = [tuple(c) for c in sc['cmds']]
        answers, err, rc, hung, npr, nl = run_c(build(), sc)
        lean = run_lean(sc)
        print('plugs (name, host, parent):', sc['plugs'], 'failing hosts:', sc['failing'])
        li = 0
        for j, (c, ts) in enumerate(sc['cmds']):
            print('>', c, ts); print('  C   :', answers[j].strip().split('\n') if j < len(answers) else '<none>')
            if c != 'raw' and li < len(lean): print('  Lean:', lean[li]); li += 1
        print('rc', rc, 'hung', hung, err[-500:])
        return 1
