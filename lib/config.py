"""configuration correspondence (C13): the real lexer + grammar + makeDevice/makeNode/makeAlias + pluglist_map + conf_addnodes +
_validate_config (harness/u_confdump.c, one process per configuration) against the Lean model Pm.ConfigModel.build (cfdriver),
plus C13 predicates evaluated on the C side's own output against a small declarative rule checker written here (independent of
the Lean model): an accepted configuration maps every node to exactly one plug of one device, respects hard-wired plug names,
maps the i-th node to the i-th plug, lists exactly the nodes of the node lines, and its aliases name only nodes; a configuration
that breaks a rule is refused with a non-zero status and a diagnostic of a fitting class naming the file and line."""
import collections, os, random, re, shutil, subprocess
from common import *

CLASSES = [
    ('specNotFound', 'device specification not found'), ('unknownDevice', 'unknown device'),
    ('invalidNodeList', 'invalid node list'), ('invalidPlugList', 'invalid plug list'),
    ('unknownPlug', 'unknown plug name'), ('plugAssigned', 'plug already assigned'),
    ('moreNodes', 'more nodes than plugs'), ('morePlugs', 'more plugs than nodes'),
    ('dupNodeName', 'duplicate node name'), ('badAlias', 'bad alias'), ('dupNode', 'duplicate node'), ('parseError', 'parse error')]
DIAG_RE = re.compile(r'^u_confdump: (' + '|'.join(re.escape(t) for _, t in sorted(CLASSES, key=lambda x: -len(x[1]))) + r'): (.*)::(\d+)$')
ALIAS_RE = re.compile(r"^u_confdump: alias '(.*)' references nonexistent node '(.*)'$")
TEXT2CLASS = {t: c for c, t in CLASSES}


def build():
    srcs = ['u_confdump.c', 'gen:parse_lex.c', 'gen:parse_tab.c'] + \
        [S('powerman/%s.c' % x) for x in ('arglist', 'pluglist', 'debug', 'device', 'device_pipe', 'device_serial', 'device_tcp', 'client')] + \
        [S('liblsd/%s.c' % x) for x in ('hostlist', 'list', 'cbuf', 'hash')] + \
        [S('libcommon/%s.c' % x) for x in ('error', 'xmalloc', 'hprintf', 'fdutil', 'argv', 'xpoll', 'xread', 'xregex')]
    return cc('u_confdump', srcs, san=True)


# ---------------------------------------------------------------- independent host-range expander

TOK_RE = re.compile(r'^([^\[\]]*)\[(\d+(?:-\d+)?(?:,\d+(?:-\d+)?)*)\]([^\[\]]*)$')


def expand_str(s):
    """expansion of a host-range string; None when the string is malformed (for the spellings the generator produces)"""
    toks = []; cur = ''; depth = 0
    for ch in s:
        if depth == 0 and ch in ', \t':
            if cur: toks.append(cur)
            cur = ''
            continue
        if ch == '[': depth += 1
        if ch == ']': depth -= 1
        cur += ch
    if cur: toks.append(cur)
    out = []
    for t in toks:
        if '[' not in t and ']' not in t:
            out.append(t); continue
        m = TOK_RE.match(t)
        if not m: return None
        pre, body, suf = m.groups()
        for r in body.split(','):
            lo, _, hi = r.partition('-')
            hi = hi or lo
            if int(lo) > int(hi) or int(hi) - int(lo) + 1 > 16384: return None
            for k in range(int(lo), int(hi) + 1): out.append(pre + '%0*d' % (len(lo), k) + suf)
    return out


# ---------------------------------------------------------------- generator

HARD_SETS = [[str(i) for i in range(1, 9)], ['a1', 'a2', 'a3', 'a4'], ['p01', 'p02', 'p03', 'p04']]
NODE_PFX = ['t', 't', 'n', 't1', 'node', 'x-', 't1a', 'c0', 'n0']
MALFORMED = ['t[0-3', 't[3-1]', 't[a-c]', 't1]', 't[]', 'n[1-', 't[1-100000]', 't[1--2]',
             # hi - lo + 1 wraps in unsigned long (F30): must be refused as too many hosts, never iterated
             't[0-18446744073709551615]', 't[1-18446744073709551616]', 'q[7-99999999999999999999]']


def spell_range(R, pfx, w, lo, k, sfx):
    """a spelling of pfx<lo..lo+k-1>sfx (numbers printed at width w)"""
    nm = lambda i: '%s%0*d%s' % (pfx, w, i, sfx)
    num = lambda i: '%0*d' % (w, i)
    names = [nm(lo + i) for i in range(k)]
    r = R.random()
    if k == 1:
        return names[0] if r < 0.85 else '%s[%s]%s' % (pfx, num(lo), sfx)
    if r < 0.5: s = '%s[%s-%s]%s' % (pfx, num(lo), num(lo + k - 1), sfx)
    elif r < 0.65: s = R.choice([',', ',', ', ', ' ']).join(names)
    elif r < 0.8 and k >= 3: s = '%s[%s,%s-%s]%s' % (pfx, num(lo), num(lo + 1), num(lo + k - 1), sfx)
    elif r < 0.9: s = '%s[%s]%s' % (pfx, ','.join(num(lo + i) for i in range(k)), sfx)
    else: s = '%s,%s' % (names[0], spell_range(R, pfx, w, lo + 1, k - 1, sfx))
    # the width of a range is the width of its lower bound: spell only what expands to the intended names
    return s if expand_str(s) == names else ','.join(names)


def spell_names(R, names):
    """a spelling of an arbitrary list of names: runs with a common prefix and consecutive numbers become ranges"""
    if R.random() < 0.4: return R.choice([',', ',', ', ']).join(names)
    out = []; i = 0
    while i < len(names):
        m = re.match(r'^(.*?)(\d+)$', names[i])
        j = i + 1
        if m:
            pre, ds = m.groups()
            while j < len(names) and names[j] == pre + '%0*d' % (len(ds), int(ds) + j - i): j += 1
            if j - i >= 2:
                s = '%s[%s-%s]' % (pre, ds, '%0*d' % (len(ds), int(ds) + j - i - 1))
                if expand_str(s) == names[i:j]:
                    out.append(s); i = j; continue
            j = i + 1
        out.append(names[i]); i = j
    s = ','.join(out)
    return s if expand_str(s) == names else ','.join(names)


class GenState:
    def __init__(self):
        self.devs = []         # dicts name, spec, hard, plugs (names in spec order / creation order), assigned {plug: node}
        self.nodes = []        # configured node names in order
        self.aliases = []


def gen_case(seed):
    """one configuration: specifications, flattened statements, the files (with include nesting) and the positions of the statements"""
    R = random.Random(seed)
    inject = []
    # -- specifications
    specs = []
    nspec = R.randint(2, 3)
    kinds = ['hard', R.choice(['free', 'hard']), 'free'][:nspec]
    R.shuffle(kinds)
    for i, k in enumerate(kinds):
        if k == 'hard':
            base = R.choice(HARD_SETS)
            plugs = base[:R.randint(2, len(base))]
            if R.random() < 0.01: plugs = plugs + [plugs[0]]; inject.append('spec-dup-plug')
            specs.append(('hw%d' % i, plugs))
        else: specs.append(('fr%d' % i, None))
    if R.random() < 0.02:
        specs.append((specs[0][0], None if specs[0][1] else ['1', '2'])); inject.append('spec-dup-name')      # findSpec returns the first
    # -- statements
    st = GenState()
    stmts = []
    ndev = R.randint(1, 3)
    devnames = R.sample(['d0', 'd1', 'd2', 'd10', 'pdu', 'd'], ndev)
    late_dev = None
    for i, dn in enumerate(devnames):
        sp = R.choice(specs)
        r = R.random()
        if r < 0.012:
            stmts.append(('device', dn, 'nospec')); inject.append('specNotFound'); continue
        if r < 0.03 and st.devs:
            dn = st.devs[0]['name']; inject.append('dup-device-name')      # accepted by the real code: the first one is found
        stmts.append(('device', dn, sp[0]))
        spd = next(s for s in specs if s[0] == sp[0])
        st.devs.append(dict(name=dn, spec=sp[0], hard=spd[1] is not None, plugs=list(spd[1] or []), assigned={}))
    if not st.devs:
        st.devs.append(dict(name='ghost', spec='', hard=False, plugs=[], assigned={}))      # node lines will hit "unknown device"
    no_nodes = R.random() < 0.015
    nlines = 0 if no_nodes else R.randint(1, 9)
    if no_nodes: inject.append('noNodes')
    careless = R.random() < 0.08          # this configuration's node lines ignore what is already configured
    for _ in range(nlines):
        d = R.choice(st.devs)
        roomy = [x for x in st.devs if not x['hard'] or any(p not in x['assigned'] for p in x['plugs'])]
        if roomy and R.random() < 0.97: d = R.choice(roomy)
        if not roomy and R.random() < 0.9: break          # every device is full: mostly stop here
        free_plugs = [p for p in d['plugs'] if p not in d['assigned']] if d['hard'] else None
        k = R.choice([1, 1, 2, 2, 3, 4, 5])
        if d['hard'] and not careless: k = max(1, min(k, len(free_plugs)))
        # node expression
        r = R.random()
        names = None
        for attempt in range(30):
            if r < 0.12:      # names that are prefixes of one another / unrelated names in a list
                pool = ['t1', 't10', 't1a', 't01', 't', 'tt', 't1a1', 'n1', 'n01', 'n001', 'x-1', 'x-10', 'login', 'c0', 'c00', '7', '07']
                names = R.sample(pool, min(k, len(pool)))
                nodestr = spell_names(R, names)
            else:
                pfx = R.choice(NODE_PFX); w = R.choice([0, 0, 0, 0, 2, 3]); lo = R.choice([0, 1, 1, 2, 5, 8, 9, 10, 11, 12, 20, 98])
                lo += R.randint(0, 3)
                if R.random() < 0.03: lo = R.choice([33554430, 33554432, 100000000, 999999998]); w = 0       # numeric parts on both sides of 2^25
                sfx = R.choice(['', '', '', '', '', '-ib', 'x'])
                names = ['%s%0*d%s' % (pfx, w, lo + i, sfx) for i in range(k)]
                nodestr = spell_range(R, pfx, w, lo, k, sfx)
            if careless or (len(set(names)) == len(names) and not (set(names) & set(st.nodes))): break
        dev = d['name']
        plugstr = None
        ir = R.random()
        # -- injected rule violations on this line
        if ir < 0.012 and st.nodes:
            nodestr = R.choice(st.nodes); names = [nodestr]; inject.append('dupNodeName')
        elif ir < 0.02:
            nodestr = R.choice(MALFORMED); names = None; inject.append('invalidNodeList')
        elif ir < 0.03:
            dev = R.choice(['nodev', dev + '0', dev[:-1] or 'q']); inject.append('unknownDevice')
        elif ir < 0.034:
            nodestr = ''; names = []; inject.append('empty-node-string')
        # -- plug list
        pr = R.random()
        if names is not None:
            if d['hard']:
                if pr < 0.5 and free_plugs:
                    cnt = len(names)
                    if ir >= 0.034 and ir < 0.05: cnt = max(0, cnt + R.choice([-1, 1])); inject.append('count-mismatch')
                    cnt = min(cnt, len(free_plugs)) if not careless else cnt
                    if cnt > 0:
                        if R.random() < 0.75:
                            s0 = R.randint(0, max(0, len(free_plugs) - cnt)); chosen = free_plugs[s0:s0 + cnt]
                        else: chosen = R.sample(free_plugs, min(cnt, len(free_plugs)))
                        if careless: chosen = [R.choice(d['plugs']) for _ in range(cnt)]
                        plugstr = spell_names(R, chosen)
                        if ir >= 0.05 and ir < 0.062:
                            bad = R.choice(['9', 'a7', 'p1', 'p001', '01', 'zz']); chosen = chosen[:-1] + [bad]; plugstr = spell_names(R, chosen); inject.append('unknownPlug')
                        elif ir >= 0.062 and ir < 0.075 and d['assigned']:
                            bad = R.choice(list(d['assigned'])); chosen = chosen[:-1] + [bad]; plugstr = spell_names(R, chosen); inject.append('plugAssigned')
                elif ir >= 0.034 and ir < 0.045 and free_plugs is not None:
                    # more nodes than free plugs, without a plug list
                    k2 = len(free_plugs) + 1
                    pfx = R.choice(['m', 'mm']); names = ['%s%d' % (pfx, 40 + i) for i in range(k2)]; nodestr = spell_range(R, pfx, 0, 40, k2, ''); inject.append('moreNodes-next')
            else:
                if pr < 0.4:
                    cnt = len(names)
                    if ir >= 0.034 and ir < 0.05: cnt = max(0, cnt + R.choice([-1, 1])); inject.append('count-mismatch')
                    if cnt > 0:
                        ppfx = R.choice(['o', 'p', '', 'a', 'out']); pw = R.choice([0, 0, 2]); plo = R.randint(1, 20)
                        for attempt in range(20):
                            chosen = ['%s%0*d' % (ppfx, pw, plo + i) for i in range(cnt)]
                            if careless or not (set(chosen) & set(d['plugs'])): break
                            plo += cnt
                        plugstr = spell_range(R, ppfx, pw, plo, cnt, '') if R.random() < 0.7 else spell_names(R, chosen)
                        if ir >= 0.062 and ir < 0.075 and d['plugs']:
                            chosen = expand_str(plugstr)[:-1] + [R.choice(d['plugs'])]; plugstr = ','.join(chosen); inject.append('plugAssigned')
            if plugstr is not None and ir >= 0.075 and ir < 0.083:
                plugstr = R.choice(MALFORMED); inject.append('invalidPlugList')
        stmts.append(('node', nodestr, dev, plugstr))
        # generator-side bookkeeping (only to steer later lines; the predicates use their own checker)
        if names is not None and dev == d['name']:
            pl = expand_str(plugstr) if plugstr is not None else None
            for i, n in enumerate(names):
                if pl is not None:
                    if i < len(pl):
                        d['assigned'].setdefault(pl[i], n)
                        if not d['hard'] and pl[i] not in d['plugs']: d['plugs'].append(pl[i])
                elif d['hard']:
                    fp = [p for p in d['plugs'] if p not in d['assigned']]
                    if fp: d['assigned'][fp[0]] = n
                else:
                    d['assigned'].setdefault(n, n)
                    if n not in d['plugs']: d['plugs'].append(n)
            st.nodes += [n for n in names if n not in st.nodes]
        # -- alias lines in between
        if R.random() < 0.3:
            stmts.append(gen_alias(R, st, stmts, inject))
    for _ in range(R.choice([0, 0, 1, 1, 2])):
        stmts.append(gen_alias(R, st, stmts, inject))
    # a device declared after its first node line (unknown device), or an alias before its nodes (fine)
    if R.random() < 0.03 and len(stmts) > 2:
        i = R.randrange(len(stmts)); s = stmts.pop(i); stmts.insert(R.randrange(len(stmts) + 1), s); inject.append('reordered')
    return dict(seed=seed, specs=specs, stmts=stmts, inject=inject, layout_seed=R.randrange(1 << 30))


def gen_alias(R, st, stmts, inject):
    r = R.random()
    used = [s[1] for s in stmts if s[0] == 'alias']
    name = 'al%d' % len(used)
    if r < 0.02 and used: name = R.choice(used); inject.append('badAlias-dup')
    elif r < 0.07 and st.nodes: name = R.choice(st.nodes); inject.append('alias-named-like-node')
    k = R.random()
    if k < 0.015: hosts = R.choice(MALFORMED); inject.append('badAlias-malformed')
    elif k < 0.04: hosts = R.choice(['nosuch', 't999', 't[1-2]zz'] + ([st.nodes[0] + '0', '0' + st.nodes[0]] if st.nodes else [])); inject.append('aliasMissing')
    elif k < 0.05: hosts = ''; inject.append('empty-alias')
    elif k < 0.45:
        nl = [s for s in stmts if s[0] == 'node' and expand_str(s[1])]
        hosts = R.choice(nl)[1] if nl else 'nosuch'        # the spelling of a whole node line (ranges)
    elif st.nodes:
        m = R.sample(st.nodes, R.randint(1, min(5, len(st.nodes))))
        if R.random() < 0.5: m.sort()
        if R.random() < 0.1: m.append(m[0])           # a member twice
        hosts = spell_names(R, m)
    else: hosts = 'nosuch'
    return ('alias', name, hosts)


def q(s):
    return '"' + s + '"'


def stmt_text(s):
    if s[0] == 'device': return 'device %s %s %s' % (q(s[1]), q(s[2]), q('localhost:10101'))
    if s[0] == 'node': return 'node %s %s' % (q(s[1]), q(s[2])) + (' ' + q(s[3]) if s[3] is not None else '')
    return 'alias %s %s' % (q(s[1]), q(s[2]))


def spec_text(sp):
    name, plugs = sp
    t = 'specification %s {\n\ttimeout 1\n' % q(name)
    if plugs is not None: t += '\tplug name { %s }\n' % ' '.join(q(p) for p in plugs)
    t += '\tscript login {\n\t\tsend "x"\n\t}\n}\n'
    return t


def layout(case, root):
    """write the configuration into files under `root` (include nesting 0-3); returns (main file, positions) where positions[i] =
    dict(file, line, nfile, nline): where statement i starts, and where the next token after it is (or the end of the main file)"""
    R = random.Random(case['layout_seed'])
    depth_max = R.choice([0, 0, 1, 1, 2, 3])
    files = []          # per file: list of ('st', [idx...]) | ('inc', fid) | ('text', str)
    n = len(case['stmts'])

    def make(items, depth):
        fid = len(files); files.append(None)
        lines = []
        for _ in range(R.choice([0, 0, 1])): lines.append(('text', '# file %d\n' % fid))
        if depth == 0:
            if R.random() < 0.5:
                sf = len(files); files.append([('text', ''.join(spec_text(s) for s in case['specs']))])
                lines.append(('inc', sf))
            else: lines.append(('text', ''.join(spec_text(s) for s in case['specs'])))
        i = 0
        while i < len(items):
            if depth < depth_max and R.random() < 0.22:
                j = i + R.randint(0, min(6, len(items) - i))
                lines.append(('inc', make(items[i:j], depth + 1))); i = j
            elif i + 1 < len(items) and R.random() < 0.04:
                lines.append(('st', [items[i], items[i + 1]])); i += 2
            else:
                lines.append(('st', [items[i]])); i += 1
            for _ in range(R.choice([0, 0, 0, 0, 1, 1, 2, 3])):
                lines.append(('text', R.choice(['\n', '# a comment\n', '   \t\n', '#node "zz" "d0"\n', '\n\n'])))
        if depth < depth_max and R.random() < 0.1: lines.append(('inc', make([], depth + 1)))      # an include that holds no statement
        files[fid] = lines
        return fid

    main = make(list(range(n)), 0)
    path = lambda fid: os.path.join(root, 'f%d.conf' % fid)
    order = []
    nlines = {}

    def walk(fid):
        ln = 1; text = ''
        for kind, v in files[fid]:
            if kind == 'st':
                for s in v: order.append((s, fid, ln))
                text += ' '.join(stmt_text(case['stmts'][s]) for s in v) + '\n'; ln += 1
            elif kind == 'inc':
                walk(v)
                text += 'include %s\n' % q(path(v)); ln += 1
            else:
                text += v; ln += v.count('\n')
        nlines[fid] = ln
        with open(path(fid), 'w') as f: f.write(text)

    walk(main)
    assert [o[0] for o in order] == list(range(n))
    pos = []
    for k, (s, fid, ln) in enumerate(order):
        if k + 1 < len(order): nf, nl = order[k + 1][1], order[k + 1][2]
        else: nf, nl = main, nlines[main]
        pos.append(dict(file=path(fid), line=ln, nfile=path(nf), nline=nl))
    return path(main), pos, dict(depth=depth_max, files=len(files))


def enc(s):
    return ':' + s.replace('%', '%25').replace(' ', '%20').replace('\t', '%09')


def lean_input(case):
    out = []
    for name, plugs in case['specs']:
        out.append('SPEC %s %s' % (enc(name), 'free' if plugs is None else 'hard ' + ' '.join(enc(p) for p in plugs)))
    for s in case['stmts']:
        if s[0] == 'device': out.append('DEVICE %s %s' % (enc(s[1]), enc(s[2])))
        elif s[0] == 'node': out.append('NODE %s %s' % (enc(s[1]), enc(s[2])) + (' ' + enc(s[3]) if s[3] is not None else ''))
        else: out.append('ALIAS %s %s' % (enc(s[1]), enc(s[2])))
    out.append('END')
    return out


# ---------------------------------------------------------------- the declarative rule checker (independent of the Lean model)

def check_rules(case):
    """walks the statements keeping the map a correct daemon must build.  Returns dict(first=(index, set of broken rules) | None,
    final=set of broken end-of-file rules with the alias names, expect=dict(devs, nodes, aliases, lines) for an acceptable configuration)"""
    specs = {}
    for name, plugs in case['specs']: specs.setdefault(name, plugs)
    devs = []; nodes = []; aliases = []; lines = []
    for i, s in enumerate(case['stmts']):
        V = set()
        if s[0] == 'device':
            if s[2] not in specs: V.add('specNotFound')
            else: devs.append(dict(name=s[1], spec=s[2], hard=specs[s[2]] is not None, names=list(specs[s[2]] or []), on={}, order=list(specs[s[2]] or [])))
        elif s[0] == 'node':
            d = next((d for d in devs if d['name'] == s[2]), None)
            N = expand_str(s[1]); P = expand_str(s[3]) if s[3] is not None else None
            if d is None: V.add('unknownDevice')
            elif N is None: V.add('invalidNodeList')
            elif s[3] is not None and P is None: V.add('invalidPlugList')
            else:
                if len(set(N)) != len(N) or set(N) & set(nodes): V.add('dupNodeName')
                placed = []
                if P is not None:
                    if len(N) > len(P): V.add('moreNodes')
                    if len(N) < len(P): V.add('morePlugs')
                    taken = set(d['on'])
                    for n_, p_ in zip(N, P):
                        if d['hard'] and p_ not in d['names']: V.add('unknownPlug')
                        elif p_ in taken: V.add('plugAssigned')
                        taken.add(p_); placed.append((n_, p_))
                elif d['hard']:
                    # hard-wired plugs may (rarely) repeat a name: track by position
                    freepos = [j for j in range(len(d['names'])) if j not in d.setdefault('used_pos', set())]
                    if len(N) > len(freepos): V.add('moreNodes')
                    placed = [(n_, ('#', j)) for n_, j in zip(N, freepos)]
                else:
                    taken = set(d['on'])
                    for n_ in N:
                        if n_ in taken: V.add('plugAssigned')
                        taken.add(n_); placed.append((n_, n_))
                if not V:
                    for n_, p_ in placed:
                        if isinstance(p_, tuple):
                            d['used_pos'].add(p_[1]); pn = d['names'][p_[1]]
                        else:
                            pn = p_
                            if d['hard']: d.setdefault('used_pos', set()).add(d['names'].index(pn))
                            elif pn not in d['order']: d['order'].insert(0, pn)
                        d['on'][pn] = n_ if pn not in d['on'] else d['on'][pn]
                        lines.append((i, n_, d, pn))
                    nodes += N
        else:
            H = expand_str(s[2])
            if H is None or any(a[0] == s[1] for a in aliases): V.add('badAlias')
            else: aliases.append((s[1], H, i))
        if V: return dict(first=(i, V), final=None, expect=None)
    final = {}
    for a in aliases:
        if any(h not in nodes for h in a[1]): final.setdefault('aliasMissing', []).append(a[0])
    if not nodes: final['noNodes'] = True
    return dict(first=None, final=final, expect=dict(devs=devs, nodes=nodes, aliases=aliases, lines=lines))


def parse_dump(out):
    devs = []; nodes = None; aliases = []; ok = False
    for l in out.split('\n'):
        f = l.split(' ')
        if f[0] == 'DEV': devs.append(dict(name=f[1], spec=f[2], plugs=[tuple(x.rsplit('=', 1)) for x in f[3:]]))
        elif f[0] == 'NODES': nodes = f[1:]
        elif f[0] == 'ALIAS': aliases.append((f[1], f[2:]))
        elif f[0] == 'OK': ok = True
    return dict(devs=devs, nodes=nodes, aliases=aliases, ok=ok)


def parse_diag(stderr):
    """the first diagnostic of the real code: (class, file, line, alias name)"""
    for l in stderr.split('\n'):
        m = DIAG_RE.match(l)
        if m: return dict(cls=TEXT2CLASS[m.group(1)], file=m.group(2), line=int(m.group(3)), text=l)
        m = ALIAS_RE.match(l)
        if m: return dict(cls='aliasMissing', alias=m.group(1), node=m.group(2), text=l)
        if l == 'u_confdump: no nodes are defined': return dict(cls='noNodes', text=l)
    return None


def pos_ok(p, file, line):
    """the parser reports where its scanner stands when the rule is reduced: on the statement's own line, or - when bison needed
    a look-ahead token to reduce (`node` without plug list, `device` without flags) - on the line of the next token, which may be
    further down, in an included file, or back in the including file"""
    if file == p['file'] and line == p['line']: return 'own line'
    if file == p['nfile'] and line == p['nline']: return 'line of the look-ahead token'
    if file == p['file'] and p['line'] <= line and (p['nfile'] != p['file'] or line <= p['nline']): return 'between'
    if file == p['nfile'] and line <= p['nline']: return 'between'
    return None


def predicates(case, pos, rc, out, err, V, st):
    """C13 on the real code's own answer"""
    chk = check_rules(case)
    stmts = case['stmts']
    accepted = rc == 0 and out.rstrip('\n').endswith('OK')
    ctx = dict(stmts=[stmt_text(s) for s in stmts][:14], specs=case['specs'])
    if rc not in (0, 1):
        V.append(dict(sig='C13 the configuration parser died (status %d)' % rc, detail=err[-1500:], **ctx)); return
    if accepted:
        st['accepted'] += 1
        D = parse_dump(out)
        if chk['first'] or chk['final']:
            what = sorted(chk['first'][1]) if chk['first'] else sorted(chk['final'])
            V.append(dict(sig='C13 a configuration that breaks a rule was accepted: ' + ','.join(what), at=chk['first'][0] if chk['first'] else None, dump=out[:1500], **ctx))
            return
        E = chk['expect']
        # every node on exactly one plug of one device; nothing else on any plug
        where = collections.Counter(n for d in D['devs'] for _, n in d['plugs'] if n != '-')
        for n in D['nodes']:
            if where[n] != 1: V.append(dict(sig='C13 a configured node is not on exactly one plug', node=n, count=where[n], dump=out[:1500], **ctx)); break
        for n in where:
            if n not in D['nodes']: V.append(dict(sig='C13 a plug carries a name that is not a configured node', node=n, dump=out[:1500], **ctx)); break
        if len(set(D['nodes'])) != len(D['nodes']): V.append(dict(sig='C13 the node list holds a name twice', dump=out[:1500], **ctx))
        # the node listing is the concatenation of the node lines
        want = [n for s in stmts if s[0] == 'node' for n in expand_str(s[1])]
        if D['nodes'] != want: V.append(dict(sig='C13 the node list is not the concatenation of the node lines', got=D['nodes'][:30], want=want[:30], **ctx))
        # devices: configuration order; hard-wired plug names are the specification's, in order
        specs = {}
        for name, plugs in case['specs']: specs.setdefault(name, plugs)
        dl = [s for s in stmts if s[0] == 'device']
        if [(d['name'], d['spec']) for d in D['devs']] != [(s[1], s[2]) for s in dl]:
            V.append(dict(sig='C13 the device list differs from the device lines', dump=out[:1500], **ctx))
        else:
            for d in D['devs']:
                names = [p for p, _ in d['plugs']]
                sp = specs[d['spec']]
                if sp is not None and names != sp: V.append(dict(sig='C13 hard-wired plug names not respected', dev=d['name'], got=names, want=sp, **ctx))
                if (sp is None or len(set(sp)) == len(sp)) and len(set(names)) != len(names): V.append(dict(sig='C13 two plugs of one device share a name', dev=d['name'], got=names, **ctx))
            # the i-th node of a line sits on the i-th plug (plug list), the next free hard-wired plug, or the plug named like it
            for (i, n, ed, pn) in E['lines']:
                di = E['devs'].index(ed)
                got = [p for p, x in D['devs'][di]['plugs'] if x == n]
                if got != [pn]:
                    V.append(dict(sig='C13 node is not on the plug its line assigns', line=stmt_text(stmts[i]), node=n, want=pn, got=got, dump=out[:1500], **ctx)); break
            for ed, d in zip(E['devs'], D['devs']):
                if not ed['hard'] and [p for p, _ in d['plugs']] != ed['order']: st['free device plug order differs from reverse creation order'] += 1
        # aliases
        for name, hosts in D['aliases']:
            for h in hosts:
                if h not in D['nodes']: V.append(dict(sig='C13 alias member is not a configured node', alias=name, member=h, **ctx)); break
        if sorted((a[0], tuple(a[1])) for a in E['aliases']) != sorted((a, tuple(h)) for a, h in D['aliases']):
            V.append(dict(sig='C13 the alias list differs from the alias lines', got=D['aliases'][:8], **ctx))
        if not D['nodes']: V.append(dict(sig='C13 a configuration without nodes was accepted', **ctx))
        return
    # refused
    dg = parse_diag(err)
    if rc == 0 or dg is None:
        V.append(dict(sig='C13 refused without non-zero status and diagnostic', rc=rc, stderr=err[-600:], **ctx)); return
    st['refused: ' + dg['cls']] += 1
    if chk['first'] is None and not chk['final']:
        V.append(dict(sig='C13 a configuration that breaks no rule was refused: ' + dg['cls'], diag=dg['text'], **ctx)); return
    if chk['first']:
        i, rules = chk['first']
        how = pos_ok(pos[i], dg['file'], dg['line']) if 'file' in dg else None
        if dg['cls'] not in rules:
            if how is None: V.append(dict(sig='C13 a line that breaks a rule was not refused: ' + ','.join(sorted(rules)), later_diag=dg['text'], line=stmt_text(stmts[i]), **ctx))
            else: V.append(dict(sig='C13 diagnostic of the wrong class: %s for %s' % (dg['cls'], ','.join(sorted(rules))), diag=dg['text'], line=stmt_text(stmts[i]), **ctx))
            return
        if how is None:
            V.append(dict(sig='C13 diagnostic names the wrong file or line', diag=dg['text'], line=stmt_text(stmts[i]), where=pos[i], **ctx)); return
        st['diagnostic position: ' + how] += 1
    else:
        if dg['cls'] not in chk['final']:
            V.append(dict(sig='C13 diagnostic of the wrong class: %s for %s' % (dg['cls'], ','.join(sorted(chk['final']))), diag=dg['text'], **ctx)); return
        if dg['cls'] == 'aliasMissing' and dg['alias'] not in chk['final']['aliasMissing']:
            V.append(dict(sig='C13 diagnostic names the wrong alias', diag=dg['text'], **ctx))


# ---------------------------------------------------------------- running both sides

def run_c(binary, case, root):
    os.makedirs(root, exist_ok=True)
    main, pos, lay = layout(case, root)
    try:
        r = subprocess.run([binary, main], capture_output=True, text=True, env=ASAN_ENV, errors='replace', timeout=120)
    except subprocess.TimeoutExpired as e:
        # reading a configuration never takes minutes: the parser (or the host range code under it) spins
        return main, pos, lay, -9, '', 'HUNG: the configuration was not read within 120 s; the process was killed\n'
    return main, pos, lay, r.returncode, r.stdout, r.stderr


def run_lean(cases):
    inp = '\n'.join(l for c in cases for l in lean_input(c)) + '\n'
    r = subprocess.run([os.path.join(LEANBIN, 'cfdriver')], input=inp, capture_output=True, text=True)
    outs = r.stdout.split('\n.\n')
    if outs and outs[-1] == '': outs.pop()
    return outs


def compare(case, pos, rc, out, err, lean):
    """None or a diff record"""
    c_acc = rc == 0 and out.rstrip('\n').endswith('OK')
    l_rej = lean.startswith('REJECT')
    if c_acc and not l_rej:
        if out.rstrip('\n') == lean.rstrip('\n'): return None
        return dict(kind='dump-differs', c=out[:1200], lean=lean[:1200])
    if c_acc != (not l_rej):
        return dict(kind='accept/reject differs', c=('accepted' if c_acc else 'status %d: %s' % (rc, err[-400:])), lean=lean[:400])
    dg = parse_diag(err)
    _, cls, idx = lean.split(); idx = int(idx)
    if dg is None: return dict(kind='no diagnostic', c=err[-400:], lean=lean)
    if dg['cls'] != cls: return dict(kind='rejection class differs', c=dg['text'], lean=lean)
    if cls == 'noNodes':
        return None if idx == len(case['stmts']) else dict(kind='index differs', c=dg['text'], lean=lean)
    if cls == 'aliasMissing':
        s = case['stmts'][idx]
        return None if s[0] == 'alias' and s[1] == dg['alias'] else dict(kind='alias differs', c=dg['text'], lean=lean)
    if pos_ok(pos[idx], dg['file'], dg['line']) is None:
        return dict(kind='offending line differs', c=dg['text'], lean=lean, where=pos[idx])
    chk = check_rules(case)
    if chk['first'] and chk['first'][0] != idx:
        # the file::line of a diagnostic may be that of the following line (look-ahead): pin the model's index to the rule checker's too
        return dict(kind='offending line differs from the rule checker', c=dg['text'], lean=lean, checker=chk['first'][0])
    return None


def one(args):
    seed, n = args
    binary = build()
    root = os.path.join(tree_dir(), 'cf-%d-%d' % (os.getpid(), seed))
    cases = [gen_case(seed * 1000003 + k) for k in range(n)]
    res = []
    try:
        for k, c in enumerate(cases):
            res.append(run_c(binary, c, os.path.join(root, str(k))))
        leans = run_lean(cases)
    finally:
        pass
    diffs = []; V = []; st = collections.Counter(); distinct = set()
    for k, (c, (main, pos, lay, rc, out, err)) in enumerate(zip(cases, res)):
        lean = leans[k] if k < len(leans) else '<no answer>'
        d = compare(c, pos, rc, out, err, lean)
        rp = dict(layer='config', seed=c['seed'])
        if d:
            d.update(stmts=[stmt_text(s) for s in c['stmts']][:14], specs=c['specs'], replay=rp); diffs.append(d)
        nv = len(V)
        predicates(c, pos, rc, out, err, V, st)
        for v in V[nv:]: v['replay'] = rp
        st['include depth %d' % lay['depth']] += 1
        for tag in c['inject']: st['generator injected: ' + tag] += 1
        st['statements'] += len(c['stmts'])
        distinct.add(tuple(c['stmts']))
    shutil.rmtree(root, ignore_errors=True)
    c0 = cases[0]; r0 = res[0]
    sample = dict(seed=c0['seed'], specs=c0['specs'], lines=[stmt_text(s) for s in c0['stmts']], status=r0[3], answer=(r0[4] or r0[5])[:600])
    return dict(n=len(cases), distinct=len(distinct), diffs=diffs, violations=V, stats=st, sample=sample)


class ConfigLayer:
    name = 'config'

    def __init__(self, quick=(16, 150), thorough=(256, 400), prop='C13'):
        self.quick = quick; self.thorough = thorough; self.prop = prop
        if prop != 'C13': self.name = 'config-' + prop

    def build(self):
        build()

    def run(self, prop, tier, seed):
        ns, n = self.quick if tier == 'quick' else self.thorough if tier == 'thorough' else (self.quick[0] * 4, self.quick[1])
        self.build()
        rs = pmap(one, [(seed * 7907 + k * 104729 + 11, n) for k in range(ns)])
        st = collections.Counter()
        for r in rs: st.update(r['stats'])
        viols = [v for r in rs for v in r['violations']]
        if self.prop == 'C18':
            # the parser-safety half of what this layer sees: the real parser died, hung, or refused a file without status and diagnostic
            viols = [dict(v, sig=v['sig'].replace('C13', 'C18', 1)) for v in viols if 'parser died' in v['sig'] or 'refused without' in v['sig']]
        return dict(name=self.name, evaluations=sum(r['n'] for r in rs), distinct=sum(r['distinct'] for r in rs), samples=[rs[0]['sample']],
                    stats=dict(sorted(st.items())), diffs=[d for r in rs for d in r['diffs']], violations=viols,
                    rule='one evaluation = one configuration (2-3 specifications with hard-wired or free plugs, 1-3 devices, 0-9 node lines in every host-range spelling with and without plug lists, 0-5 alias lines, every rejection rule injected with small probability, include nesting 0-3 with blank and comment lines) read by the real lexer, grammar, makeDevice/makeNode/makeAlias, pluglist_map, conf_addnodes and _validate_config in a fresh process, compared with Pm.ConfigModel.build: accept/reject, diagnostic class, offending line (file::line against the position of the model\'s statement index), and the full dump of devices, plugs, nodes and aliases; the C13 predicates are evaluated on the real code\'s answer against a declarative rule checker independent of the model; distinct = distinct statement lists per run')

    def replay(self, rp, v):
        binary = build()
        c = gen_case(rp['seed'])
        root = os.path.join(tree_dir(), 'cf-replay-%d' % os.getpid())
        main, pos, lay, rc, out, err = run_c(binary, c, root)
        lean = run_lean([c])[0]
        for name, plugs in c['specs']: print('specification', name, plugs)
        for s, p in zip(c['stmts'], pos): print('%-60s %s::%d' % (stmt_text(s), os.path.basename(p['file']), p['line']))
        print('C    : status', rc); print(out + err.replace(root + '/', ''))
        print('Lean :'); print(lean)
        d = compare(c, pos, rc, out, err, lean)
        if d: print('DIFF', d)
        V = []; st = collections.Counter(); predicates(c, pos, rc, out, err, V, st)
        for x in V[:5]: print('PREDICATE', {k: w for k, w in x.items() if k not in ('stmts', 'specs')})
        shutil.rmtree(root, ignore_errors=True)
        return 1 if (V or d) else 0
