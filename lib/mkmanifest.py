#!/usr/bin/env python3
"""regenerate MANIFEST.json from lib/props.py (run after changing which properties are claimed)"""
import json, os, sys
sys.path.insert(0, os.path.dirname(os.path.abspath(__file__)))
import props
allp = [json.loads(l)['id'] for l in open(os.path.join(props.VERIF, 'properties.jsonl'))]
checks = []
root = open(os.path.join(props.LEAN, 'Pm.lean')).read()
claimed = [p for p in props.PROPS if ('import Pm.Props.%s\n' % p) in root]
for pid, d in props.PROPS.items():
    if pid not in claimed: continue
    checks.append(dict(
        property_id=pid, quick_cmd='./check %s quick' % pid, thorough_cmd='./check %s thorough' % pid,
        evidence_file='/verif/evidence/%s.json' % pid, replay_cmd_template='./check replay {path}',
        engine=d.get('engine', 'lean+correspondence'),
        level_claimed=dict(category='proof', text=d.get('level_text', 'Lean 4 theorems over a hand-written model tied to the code by a differential correspondence run; see DESIGN.md'), design_ref='DESIGN.md §6 ' + pid),
        level_note=d.get('level_note', 'Trusted: Lean kernel, standard axioms, the correspondence harness and its generators; see DESIGN.md §8'),
        technique=d.get('technique', 'machine-checked proof (Lean 4) over a model validated by differential correspondence with the C code')))
na = [dict(property_id=p, reason=props.NOT_YET.get(p, 'no check registered yet')) for p in allp if p not in claimed]
m = dict(version=1, setup_cmd='./check setup',
         hooks=dict(guard='POWERMAN_VERIF', enable='none needed: harnesses reach statics by #include of the .c files and system calls by -Wl,--wrap; no source hook exists',
                    baseline_off_cmd='make -C /repo -j8 check', source_commits=[], add_only=True),
         engines=[dict(name='lean+correspondence', path='/verif/check', serves_properties=claimed,
                       kind_free_text='Lean 4 library (lean/Pm) with property theorems in Pm/Props; translator for tables; C harnesses built from /repo working tree (ASan+UBSan) compared with compiled Lean drivers over a line protocol; predicates on the implementation trace')],
         checks=checks, not_applicable=na,
         notes='Every check: regenerate tables from /repo, lake build, axiom audit of the property theorems, correspondence run, predicates on the real code\'s trace. See DESIGN.md.')
json.dump(m, open(os.path.join(props.VERIF, 'MANIFEST.json'), 'w'), indent=1)
print('MANIFEST.json: %d checks, %d not claimed' % (len(checks), len(na)))
