#!/usr/bin/env python3
"""regenerate MANIFEST.json from lib/props.py (run after changing which properties are claimed)"""
import json, os, sys
sys.path.insert(0, os.path.dirname(os.path.abspath(__file__)))
import props
allp = [json.loads(l)['id'] for l in open(os.path.join(props.VERIF, 'properties.jsonl'))]
checks = []
root = open(os.path.join(props.LEAN, 'Pm.lean')).read()
claimed = [p for p in props.PROPS if ('import Pm.Props.%s\n' % p) in root]
import common
NOTES = {
 'C02': 'partial: the end-to-end run theorems are stated over runs whose regex answers are supplied for the first pass only (lifting to answers per pass in progress); the 309 line is proved per statement, not end to end',
 'C04': 'partial: the quantitative time bound under arbitrary reconnect storms is not proved',
 'C05': 'partial: two hypotheses remain (the sick device consumed the same number of descriptors in both runs; clients that observe it are inert); equality of real completion times is outside a model whose time is an input',
 'C06': 'partial: memory safety of the C code beyond the modelled buffers is observed under ASan/UBSan, not proved',
 'C07': 'partial: memory safety of the C code beyond the modelled buffers is observed under ASan/UBSan, not proved; hosts with several addresses are not modelled yet',
 'C09': 'partial: the daemon model carries its buffers as byte lists with liblsd\'s size and overwrite rules; the ring itself (cbuf.c at index level) is a separate model proved to refine that queue and tied to the real cbuf.c by its own layer, not substituted into the daemon model; serial lines: the tty line discipline is a model compared with the running kernel on a pty',
 'C11': 'partial: client-id wrap at INT_MAX is outside the unbounded counter of the model (known finding F17, replayed on the real code by the id-wrap layer)',
 'C15': 'partial: the model never drops client output (the property carries the 1 MiB proviso); cleanliness of data-carrying lines needs a CR/LF-free configuration',
 'C16': 'partial: memory safety of the remaining C is observed under ASan, not proved; the layer libpm-greeting (server lines of CP_LINEMAX bytes and more in the greeting) runs the implementation alone under ASan with the exit-status predicates - a boundary test, not a comparison with the model, which is too slow on 100 KiB lines',
 'C17': 'acceptance by the parser and regcomp is observed (the translator is the real parser); the static predicate is decided in the kernel for every shipped statement and proved sound for the interpreter model (specOK_sound)',
 'C18': 'partial: the flex/bison automata, malloc and regcomp are not modelled; their behaviour on arbitrary input is observed under sanitizers',
 'C19': 'partial: the command parser and setplugs of redfishpower are not modelled yet (observed through raw lines)',
 'C20': 'partial: real descriptors, children and heap are observed (ledger predicates, LeakSanitizer at shutdown, exit status of the real main()), the ledger invariants and the signal pass are proved on the model',
}
for pid, d in props.PROPS.items():
    if pid not in claimed: continue
    nthm = len(common.theorems_of(os.path.join(props.LEAN, 'Pm', 'Props', pid + '.lean')))
    layers = ', '.join(L.name for L in d['layers'])
    d = dict(d)
    d.setdefault('level_text', '%d Lean 4 theorems (Pm/Props/%s.lean) about an executable model of the anchored C code, proved for all inputs/states/histories the property quantifies over; the model is tied to /repo on every run by regenerated tables and by a differential correspondence run (%s) against the real functions built from the working tree; independent predicates on the implementation\'s own trace turn a broken tie into a replayable failing input. %s' % (nthm, pid, layers, NOTES.get(pid, '')))
    d.setdefault('level_note', 'Trusted: Lean 4.33 kernel, axioms propext/Classical.choice/Quot.sound only (audited per theorem on every run), the translator, the correspondence harness and the reach of its generators (distribution in the evidence), glibc regexec as a recorded oracle. See DESIGN.md sections 8 and 9.')
    d.setdefault('technique', 'machine-checked proof in Lean 4 over a hand-written model; correspondence by differential execution (' + layers + ')')
    d.setdefault('engine', 'lean+correspondence')
    checks.append(dict(
        property_id=pid, quick_cmd='./check %s quick' % pid, thorough_cmd='./check %s thorough' % pid,
        evidence_file='/verif/evidence/%s.json' % pid, replay_cmd_template='./check replay {path}',
        engine=d.get('engine', 'lean+correspondence'),
        level_claimed=dict(category='proof', text=d.get('level_text', 'Lean 4 theorems over a hand-written model tied to the code by a differential correspondence run; see DESIGN.md'), design_ref='DESIGN.md §6 ' + pid),
        level_note=d.get('level_note', 'Trusted: Lean kernel, standard axioms, the correspondence harness and its generators; see DESIGN.md §8'),
        technique=d.get('technique', 'machine-checked proof (Lean 4) over a model validated by differential correspondence with the C code')))
na = [dict(property_id=p, reason=props.NOT_YET.get(p, 'no check registered yet')) for p in allp if p not in claimed]
m = dict(version=1, setup_cmd='./check setup',
         hooks=dict(guard='POWERMAN_VERIF', enable='none needed: harnesses reach statics by #include of the .c files and system calls by -Wl,--wrap; no source hook exists',
                    baseline_off_cmd='make -C /repo -j8 check', source_commits=[], add_only=True),
         engines=[dict(name='lean+correspondence', path='/verif/check', serves_properties=claimed,
                       kind_free_text='Lean 4 library (lean/Pm) with property theorems in Pm/Props; translator for tables; C harnesses built from /repo working tree (ASan+UBSan) compared with compiled Lean drivers over a line protocol; predicates on the implementation trace')],
         checks=checks, not_applicable=na,
         notes='Every check: regenerate tables from /repo, lake build, axiom audit of the property theorems, correspondence run, predicates on the real code\'s trace. See DESIGN.md.')
json.dump(m, open(os.path.join(props.VERIF, 'MANIFEST.json'), 'w'), indent=1)
print('MANIFEST.json: %d checks, %d not claimed' % (len(checks), len(na)))
