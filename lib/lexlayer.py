"""C18 — the configuration reader.

Correspondence: the real lexer and grammar (flex/bison output regenerated from the working tree's parse_lex.l / parse_tab.y,
harness/u_lexdump.c, ASan+UBSan) against the Lean model Pm/LexModel.lean behind the driver lxdriver (LxMain.lean):

  strings   one generated string literal per case, through yylex() alone (mode `lex`) and through conf_init() down to the
            instantiated `send` format of the login script (mode `string`): accept/reject class and the exact stored bytes
  includes  trees of files (chains of depth 0-12, cycles, missing files, directories, random graphs): token order across
            files and the way the scan ends, through yylex(); the chains also through conf_init()
  numbers   the real static _strtolong / _strtodouble+_doubletotv (mode `num`) on numeric tokens and on arbitrary bytes
  elements  sequences of specification / device / node items in any order: accepted or the class of the rejection

Failing-input search (predicates on the C side's own output, mode `file` = conf_init() followed by the daemon's start-up
steps that touch mandatory elements): mutations of every shipped device file, random bytes, and a regression corpus.
The flex and bison automata, malloc and regcomp are NOT modelled: their memory safety on these inputs is *observed* under the
sanitizers by this search, not proved."""
import base64, collections, glob, hashlib, os, random, re, shutil, subprocess
from common import *

PREFIX = b'specification "s" { timeout 1 script login { send "'
SUFFIX = b'" } }\ndevice "d" "s" "/bin/true |&"\nnode "n" "d"\n'
NPREFIX_TOKENS = 9                      # tokens yylex() returns for PREFIX before the literal
TAIL = b'device "d0" "%s" "/bin/true |&"\nnode "n0" "d0"\n'


def build():
    gen_parser()                        # u_lexdump.c #includes the regenerated parse_tab.c
    srcs = ['u_lexdump.c', 'gen:parse_lex.c'] + \
        [S('powerman/%s.c' % x) for x in ('arglist', 'parse_util', 'pluglist', 'debug', 'device_pipe', 'device_serial', 'device_tcp', 'client')] + \
        [S('liblsd/%s.c' % x) for x in ('hostlist', 'list', 'cbuf', 'hash')] + \
        [S('libcommon/%s.c' % x) for x in ('error', 'xmalloc', 'hprintf', 'fdutil', 'argv', 'xpoll', 'xread', 'xregex')]
    return cc('u_lexdump', srcs, san=True, extra=['-fsanitize=float-cast-overflow'])


def hx(b):
    return b.hex() if b else '-'


def unhx(s):
    return b'' if s == '-' else bytes.fromhex(s)


# ---------------------------------------------------------------- running the two sides

def run_batch(mode, args):
    """one forked child of the harness per argument; returns dicts exit, sig, to, ms, out, err"""
    if not args: return []
    r = subprocess.run([build(), 'batch', mode], input='\n'.join(args) + '\n', capture_output=True, text=True, env=ASAN_ENV)
    res = []
    for l in r.stdout.split('\n'):
        m = re.match(r'R exit=(-?\d+) sig=(\d+) to=(\d) ms=(\d+) out=(\S+) err=(\S+)$', l)
        if m: res.append(dict(exit=int(m.group(1)), sig=int(m.group(2)), to=int(m.group(3)), ms=int(m.group(4)),
                              out=unhx(m.group(5)).decode('latin-1'), err=unhx(m.group(6)).decode('latin-1')))
    if len(res) != len(args):
        raise RuntimeError('u_lexdump batch %s answered %d of %d cases: %s' % (mode, len(res), len(args), r.stderr[-600:]))
    return res


def run_model(lines):
    if not lines: return []
    r = subprocess.run([os.path.join(LEANBIN, 'lxdriver')], input='\n'.join(lines) + '\n', capture_output=True, text=True)
    out = r.stdout.split('\n')[:-1]
    if len(out) != len(lines):
        raise RuntimeError('lxdriver answered %d of %d lines: %s' % (len(out), len(lines), r.stderr[-400:]))
    return out


class Scratch:
    n = 0

    def __init__(self, tag):
        Scratch.n += 1
        self.d = os.path.join(BUILD, 'lex', '%s-%d-%d' % (tag, os.getpid(), Scratch.n))
        shutil.rmtree(self.d, ignore_errors=True)
        os.makedirs(self.d)

    def write(self, name, content):
        p = os.path.join(self.d, name)
        if content is None: return p                       # a missing file
        if content == 'DIR': os.makedirs(p, exist_ok=True); return p
        with open(p, 'wb') as f: f.write(content)
        return p

    def close(self):
        shutil.rmtree(self.d, ignore_errors=True)


def brief(err, n=900):
    """the informative part of a stderr text: for a sanitizer report its head (error line and first stack), else its tail"""
    i = err.find('ERROR: AddressSanitizer')
    if i >= 0: return err[i:i + n + 600]
    i = err.find('runtime error:')
    if i >= 0: return err[max(0, err.rfind('\n', 0, i)):][:n]
    return err[-n:]


def diag_class(r, scratch=''):
    """normalised class of what the process printed on stderr"""
    err = r['err']
    m = re.search(r'AddressSanitizer: ([\w-]+)', err)
    if m: return 'asan:' + m.group(1)
    if 'LeakSanitizer' in err: return 'asan:leak'
    m = re.search(r'runtime error: (.*)', err)
    if m:
        t = m.group(1)
        if 'outside the range of representable values' in t: return 'ubsan:float-cast-overflow'
        return 'ubsan:' + re.sub(r'[-+]?\d[\d.e+x]*', 'N', t)[:70]
    lines = [l for l in err.split('\n') if l.strip()]
    if not lines: return ''
    l = lines[-1]                       # warnings and library messages come first, the fatal diagnostic last
    l = re.sub(r'^u_lexdump: ', '', l)
    if scratch: l = l.replace(scratch, '')
    l = re.sub(r': [^:\s]*::\d+$', '', l)
    l = re.sub(r"`[^']*'", "`..'", l)
    l = re.sub(r"'[^']*'", "'..'", l)
    m = re.match(r'.*: (No such file or directory|Is a directory|Not a directory|Permission denied|File name too long|Too many levels of symbolic links)$', l)
    if m: return 'open: ' + m.group(1)
    if l.startswith('getaddrinfo'): return 'getaddrinfo'
    if l.startswith('regcomp failed'): return 'regcomp failed'
    if re.search(r'is not a regular file', l): return 'not a regular file'
    return l[:70]


# ---------------------------------------------------------------- C18 predicate on the C side's own output

def numeric_values(text):
    """every value a `$N` written in this text could legitimately have: strtol(…, 0) of each digit run, as an int"""
    vals = {-1}
    for m in re.finditer(rb'[0-9]+', text):
        t = m.group(0)
        if len(t) > 24: continue
        if t[0:1] == b'0':
            k = 0
            while k < len(t) and t[k:k + 1] in b'01234567': k += 1
            v = int(t[:k], 8)
        else: v = int(t)
        if v > 2 ** 63 - 1: continue
        v &= 0xffffffff
        vals.add(v - 2 ** 32 if v >= 2 ** 31 else v)
    return vals


def c18_predicate(r, text=None, scratch='', mode='file'):
    """None, or the signature of the way this run contradicts C18 (mode = the harness mode that produced r)"""
    cls = diag_class(r, scratch)
    accepted = r['out'].startswith('OK ') if mode == 'file' else r['out'].endswith('EOF\n') if mode == 'lex' else r['out'].startswith(('ok ', 'long ', 'double '))
    where = 'after accepting the configuration' if accepted else 'while reading configuration'
    if r['to']: return 'C18 hang (no result within 10 s) ' + where
    if cls.startswith('asan:'): return 'C18 memory-safety error (%s) %s' % (cls[5:], where)
    if cls == 'ubsan:float-cast-overflow': return 'C18 undefined double-to-integer conversion of a time value (timeout/pingperiod/delay >= 2^63)'
    if cls.startswith('ubsan:'): return 'C18 undefined behaviour (%s) %s' % (cls[6:], where)
    if r['sig']: return 'C18 killed by signal %d %s' % (r['sig'], where)
    if r['exit'] == 0:
        if not accepted or not r['out'].endswith('\n'): return 'C18 exit status 0 without serving'
        for d in r['out'].split(' D ')[1:]:
            f = dict(x.split('=', 1) for x in d.split()[1:] if '=' in x)
            if f.get('login') in (None, '-1'): return 'C18 accepted configuration has a device without login script'
            if f.get('plugs') in (None, '-1'): return 'C18 accepted configuration has a device without plug list'
            if '0' in f.get('meth', '0')[:3]: return 'C18 accepted configuration has a device without connect/disconnect/destroy method'
            if f.get('acts') == '0': return 'C18 accepted configuration: login action was not queued'
            if text is not None and f.get('mps', '-') != '-':
                ok = numeric_values(text)
                for v in f['mps'].split(','):
                    if int(v) not in ok: return 'C18 accepted configuration instantiates a match position that is not written in it'
        return None
    if r['exit'] in (1, 2):
        if not cls: return 'C18 exit status %d without diagnostic' % r['exit']
        if accepted: return 'C18 exit status %d after accepting the configuration' % r['exit']
        return None
    return 'C18 unexpected exit status %d %s' % (r['exit'], where)


# ---------------------------------------------------------------- string literals

PRINTABLE = bytes(c for c in range(32, 127) if c not in (0x22, 0x5c))
OCT = [b'000', b'377', b'400', b'189', b'777', b'101', b'012', b'800', b'999', b'089', b'108', b'255', b'256', b'007', b'080', b'008', b'378', b'401']


def gen_piece(R):
    k = R.random()
    if k < 0.30: return bytes(R.choice(PRINTABLE) for _ in range(R.randint(1, 12)))
    if k < 0.42: return b'\\' + bytes([R.choice(b'abefnrtv')])
    if k < 0.54: return b'\\' + (R.choice(OCT) if R.random() < 0.7 else bytes(R.choice(b'0123456789') for _ in range(3)))
    if k < 0.60: return b'\\' + R.choice([b'08', b'1', b'12', b'0', b'9', b'77']) + R.choice([b'x', b' ', b'\\n', b''])
    if k < 0.65: return b'\\"'
    if k < 0.70: return b'\\\\'
    if k < 0.74: return b'\\\n'
    if k < 0.84: return b'\\' + bytes([R.randrange(256)])
    if k < 0.88: return b'\\' + bytes([R.randrange(128, 256)])
    if k < 0.91: return b'\x00' + bytes(R.choice(PRINTABLE) for _ in range(R.randint(0, 4)))
    if k < 0.95: return bytes(R.randrange(128, 256) for _ in range(R.randint(1, 4)))
    if k < 0.97: return R.choice([b'\r', b'\t', b'\x01', b'\x7f', b'%s', b'%d', b'$1', b'#'])
    if k < 0.985: return b'\n'
    return b'"'


def gen_long(R):
    """bodies whose stored length sits around the capacity of string_buf"""
    target = R.choice([8188, 8189, 8190, 8191, 8192, 8193, 8200, 9000, 12000, 16383, 16384, 16385, 20000, 40000])
    k = R.random()
    if k < 0.35: return bytes([R.choice(PRINTABLE)]) * target
    out = []; stored = 0
    while stored < target:
        q = R.random()
        if q < 0.5:
            n = min(target - stored, R.randint(1, 900)); out.append(bytes(R.choice(PRINTABLE) for _ in range(n))); stored += n
        elif q < 0.7: out.append(b'\\' + bytes([R.choice(b'abefnrtv')])); stored += 1
        elif q < 0.85: out.append(b'\\' + R.choice(OCT)); stored += 1
        elif q < 0.93: out.append(b'\\' + bytes([R.choice(PRINTABLE + b'"\\')])); stored += 1
        elif q < 0.97 and k > 0.7: out.append(b'q\x00' + bytes(R.choice(PRINTABLE) for _ in range(R.randint(1, 30))) + b'\\t'); stored += 2
        else: out.append(bytes([R.randrange(128, 256)])); stored += 1
    return b''.join(out)


def gen_body(R):
    """(body, closed): the bytes written after the opening quote; closed=False: the file ends right after them"""
    k = R.random()
    if k < 0.12: body = gen_long(R)
    elif k < 0.25: body = b''.join(gen_piece(R) for _ in range(R.randint(20, 120)))
    elif k < 0.27: body = b''
    else: body = b''.join(gen_piece(R) for _ in range(R.randint(1, 10)))
    closed = R.random() >= 0.06
    if not closed and R.random() < 0.3: body += b'\\'
    if not closed and R.random() < 0.2: body += R.choice([b'\\1', b'\\12', b'\\a', b'\x00'])
    return body, closed


def edge_bodies():
    """the capacity boundary and the NUL rules, on every run"""
    x = lambda n: b'x' * n
    return [x(8190), x(8191), x(8192), x(8190) + b'\\n', x(8191) + b'\\n', x(8190) + b'\\101', x(8191) + b'\\000', x(8188) + b'\\189', x(8190) + b'\\"', x(8191) + b'\\"',
            x(8190) + b'\\\n', x(8191) + b'\\\n', b'\x00' + x(9000), b'a\\000' + x(8189), b'a\\000' + x(8190), b'a\\\x00' + x(8189), b'a\\\x00' + x(8190), x(4000) + b'\x00' + x(9000) + b'\\t' + x(4190),
            x(4000) + b'\x00' + x(9000) + b'\\t' + x(4191), b'\\n' * 8191, b'\\n' * 8192, b'\\400' * 8191, b'\\777' * 8192, b'\\189\\08\\1\\12x\\400\\377\\000z', b'\\x41\\q\\\xff\\\x80',
            x(8191) + b'\x00', x(8191) + b'\x00' + x(500), x(8191) + b'\n', x(8192) + b'\n', x(16384), x(16385), x(70000)]


REJ = {'reject newline': 'parse error', 'reject unterminated': 'parse error', 'reject toolong': 'string too long'}


def string_unit(args):
    seed, n = args
    R = random.Random(seed)
    sc = Scratch('s')
    cases = []; paths = []
    todo = [(b, True) for b in edge_bodies()] + [gen_body(R) for _ in range(n)]
    for i, (body, closed) in enumerate(todo):
        rest = body + (SUFFIX if closed else b'')
        cases.append((body, closed, rest))
        paths.append(sc.write('c%d.conf' % i, PREFIX + rest))
    model = run_model(['S ' + hx(c[2]) for c in cases])
    lex = run_batch('lex', paths)
    cnf = run_batch('string', paths)
    sc.close()
    st = collections.Counter(); diffs = []; V = []; seen = set()
    for i, ((body, closed, rest), m, rl, rc) in enumerate(zip(cases, model, lex, cnf)):
        seen.add(rest)
        rp = dict(layer='config-lexer', kind='string', body=base64.b64encode(body).decode(), closed=closed, seed=seed, index=i)
        for r, which in ((rl, 'yylex'), (rc, 'conf_init')):
            s = c18_predicate(r, None, sc.d, 'lex' if which == 'yylex' else 'string')
            if s: V.append(dict(sig=s, through=which, detail=brief(r['err'] or r['out'], 600), body=hx(body[:64]), replay=rp))
        toks = rl['out'].split('\n')
        if toks and toks[-1] == '': toks.pop()
        got = toks[NPREFIX_TOKENS] if len(toks) > NPREFIX_TOKENS else None      # the token after the prefix, if yylex() got that far
        if m.startswith('ok '):
            _, stored, cons = m.split()
            whole = int(cons) == len(body) + 1
            st['string accepted' + ('' if whole else ' (closed by a bare quote inside the body)')] += 1
            if unhx(stored) != body and whole: st['string accepted and differs from its source text'] += 1
            if len(stored) == 2 * 8191: st['string accepted with exactly 8191 stored bytes (capacity)'] += 1
            if b'\x00' in rest[:int(cons)] or unhx(stored) != unhx(stored).rstrip(b'\0'): st['string with a NUL in source or store'] += 1
            if got != 'T S ' + stored:
                diffs.append(dict(kind='string-differs', through='yylex', body=hx(body[:200]), blen=len(body), closed=closed, c=(got or rl['err'])[:300], lean=m[:300], replay=rp))
            if whole:
                if rc['exit'] != 0 or rc['out'].strip() != 'ok ' + stored:
                    diffs.append(dict(kind='string-differs', through='conf_init', body=hx(body[:200]), blen=len(body), c=(rc['out'] or rc['err'])[:300], lean=m[:300], replay=rp))
            else: st['conf_init after an early close: ' + ('accepted' if rc['exit'] == 0 else diag_class(rc, sc.d))] += 1
        elif m in REJ:
            st['string ' + m] += 1
            if m == 'reject toolong' and len(body) == 8192: st['string reject toolong with a body of exactly 8192 bytes'] += 1
            for r, which in ((rl, 'yylex'), (rc, 'conf_init')):
                if which == 'yylex' and m == 'reject unterminated':
                    # end of input inside the literal: yylex() itself just returns 0 (after echoing a trailing lone backslash,
                    # flex's default rule); it is the grammar that then reports the parse error
                    lone = (len(body) - len(body.rstrip(b'\\'))) % 2 == 1           # an odd run of backslashes at the end: the last one is alone
                    bad = r['exit'] != 0 or got != ('\\EOF' if lone else 'EOF')
                else: bad = r['exit'] != 1 or diag_class(r, sc.d) != REJ[m] or (which == 'yylex' and got is not None)
                if bad:
                    diffs.append(dict(kind='rejection-differs', through=which, body=hx(body[:200]), blen=len(body), closed=closed,
                                      c='exit=%d %s | %s' % (r['exit'], diag_class(r, sc.d), (got or '')[:80]), lean=m, replay=rp))
        else:
            diffs.append(dict(kind='model-outcome', lean=m, body=hx(body[:200]), replay=rp))
            if m == 'reject overrun': V.append(dict(sig='C18 model reaches a store outside string_buf', body=hx(body[:64]), replay=rp))
    sample = [dict(literal=repr(c[0][:60]), model=m[:80]) for c, m in list(zip(cases, model))[len(edge_bodies()):len(edge_bodies()) + 6]]
    return dict(n=2 * len(cases), distinct=len(seen), diffs=diffs, violations=V, stats=st, sample=sample)


# ---------------------------------------------------------------- include trees

def gen_tree(R):
    """list of files: None (missing) | 'DIR' | list of items ('t', id) / ('i', file)"""
    tid = [0]

    def toks(k):
        out = []
        for _ in range(k): tid[0] += 1; out.append(('t', tid[0]))
        return out
    k = R.random()
    if k < 0.40:                                               # chain of depth d
        d = R.randint(0, 12)
        files = [toks(R.randint(0, 2)) + ([('i', i + 1)] if i < d else []) + toks(R.randint(0, 2)) for i in range(d + 1)]
        what = 'chain depth %d' % d
    elif k < 0.55:                                             # cycle of length c
        c = R.randint(1, 4)
        files = [toks(R.randint(0, 2)) + [('i', (i + 1) % c)] + toks(R.randint(0, 1)) for i in range(c)]
        what = 'cycle length %d' % c
    elif k < 0.70:                                             # missing file / directory at the end of a chain
        d = R.randint(0, 10); bad = R.choice([None, 'DIR'])
        files = [toks(R.randint(0, 2)) + [('i', i + 1)] + toks(1) for i in range(d + 1)] + [bad]
        what = 'chain depth %d ending in %s' % (d + 1, 'a missing file' if bad is None else 'a directory')
    else:                                                      # random graph, at most two includes per file
        nf = R.randint(2, 5); files = []
        for i in range(nf):
            items = toks(R.randint(0, 3))
            for _ in range(R.randint(0, 2)):
                tgt = R.randrange(nf + 1) if R.random() < 0.5 else R.randint(i + 1, nf)
                items.insert(R.randint(0, len(items)), ('i', tgt))
            files.append(items)
        files.append(R.choice([None, 'DIR', toks(1)]))
        what = 'random graph of %d files' % (nf + 1)
    return files, what


def tree_desc(files):
    out = []
    for f in files:
        if f is None: out.append('m')
        elif f == 'DIR': out.append('d')
        else: out.append('r:' + ','.join('%s%d' % it for it in f))
    return 'I ' + ';'.join(out)


def write_tree(sc, files, tag, R=None, conf=False):
    """include files as text; token ('t', id) is the string "id".  conf=True: a real configuration, the specification in
    the deepest file of a chain, the device and node after the include in file 0"""
    paths = [os.path.join(sc.d, '%s_f%d' % (tag, i)) for i in range(len(files))]
    for i, f in enumerate(files):
        if f is None or f == 'DIR': sc.write('%s_f%d' % (tag, i), f); continue
        lines = []
        for it in f:
            if it[0] == 't': lines.append(b'# token %d\n' % it[1] if conf else b'"%d"' % it[1])
            else:
                ws = R.choice([b' ', b'  ', b'\t', b' \t ']) if R else b' '
                lines.append(b'include' + ws + b'"' + paths[it[1]].encode() + b'"')
        text = b'\n'.join(lines) + b'\n'
        if conf:
            if i == len(files) - 1: text += b'specification "s" { timeout 1 script login { send "x" } }\n'
            if i == 0: text += b'device "d" "s" "/bin/true |&"\nnode "n" "d"\n'
        sc.write('%s_f%d' % (tag, i), text)
    return paths[0]


INC_CLASS = {'Includes nested too deeply': 'too-deep', 'open: No such file or directory': 'missing', 'input in flex scanner failed': 'read-error'}


def include_unit(args):
    seed, n = args
    R = random.Random(seed)
    sc = Scratch('i')
    cases = []; paths = []; cpaths = []; cdepth = []
    for i in range(n):
        files, what = gen_tree(R)
        cases.append((files, what)); paths.append(write_tree(sc, files, 't%d' % i, R))
    for d in range(0, 13):                                      # the chains once more as real configurations
        files = [[('t', i)] + ([('i', i + 1)] if i < d else []) for i in range(d + 1)]
        cpaths.append(write_tree(sc, files, 'c%d' % d, None, conf=True)); cdepth.append(files)
    events = [''.join(R.choice('++-') for _ in range(R.randint(0, 40))) for _ in range(n)]
    model = run_model([tree_desc(f) for f, _ in cases] + [tree_desc(f) for f in cdepth] + ['E ' + e for e in events])
    lex = run_batch('lex', paths)
    cnf = run_batch('file', cpaths)
    st = collections.Counter(); diffs = []; V = []; seen = set()
    for i, ((files, what), m, r) in enumerate(zip(cases, model, lex)):
        seen.add(tree_desc(files))
        rp = dict(layer='config-lexer', kind='include', tree=tree_desc(files), seed=seed, index=i)
        s = c18_predicate(r, None, sc.d, 'lex')
        if s: V.append(dict(sig=s, tree=tree_desc(files), detail=brief(r['err'], 600), replay=rp))
        toks = [int(unhx(l[4:])) for l in r['out'].split('\n') if l.startswith('T S ')]
        ctoks = ','.join(map(str, toks)) or '-'
        if r['exit'] == 0 and r['out'].endswith('EOF\n'): c = 'ok ' + ctoks
        else: c = 'reject %s %s' % (INC_CLASS.get(diag_class(r, sc.d), 'exit=%d %s' % (r['exit'], diag_class(r, sc.d))), ctoks)
        st['include tree: ' + m.split()[0] + (' ' + m.split()[1] if m.startswith('reject') else '')] += 1
        st['include scenario: ' + re.sub(r'\d+', 'N', what)] += 1
        if c != m: diffs.append(dict(kind='include-differs', what=what, tree=tree_desc(files), c=c[:300], lean=m[:300], replay=rp))
    for d, (m, r) in enumerate(zip(model[len(cases):len(cases) + 13], cnf)):
        rp = dict(layer='config-lexer', kind='include-conf', depth=d)
        s = c18_predicate(r, None, sc.d)
        if s: V.append(dict(sig=s, depth=d, detail=brief(r['err'], 600), replay=rp))
        c = 'ok' if r['out'].startswith('OK 1 1') and r['exit'] == 0 else 'reject ' + INC_CLASS.get(diag_class(r, sc.d), diag_class(r, sc.d))
        st['configuration spread over an include chain: ' + c] += 1
        if c != ' '.join(m.split()[:2 if m.startswith('reject') else 1]):
            diffs.append(dict(kind='include-conf-differs', depth=d, c=c, lean=m[:200], detail=(r['out'] + r['err'])[-300:], replay=rp))
    # the stack discipline itself: the model's pointer never leaves the arrays (checked here on its own output)
    for e, m in zip(events, model[len(cases) + 13:]):
        st['include event sequences: ' + m.split()[0]] += 1
        if m == 'oob' or (m.startswith('cont') and int(m.split()[1]) >= 10):
            V.append(dict(sig='C18 include stack index leaves the arrays in the model', events=e, replay=dict(layer='config-lexer', kind='events', events=e)))
    sc.close()
    sample = [dict(scenario=w, tree=tree_desc(f)[:120], model=m[:80]) for (f, w), m in list(zip(cases, model))[:4]]
    return dict(n=len(cases) + 13 + len(events), distinct=len(seen) + 13 + len(set(events)), diffs=diffs, violations=V, stats=st, sample=sample)


# ---------------------------------------------------------------- numbers

T_HUGE = 2 ** 1024 - 2 ** 970          # decimal values from here on round to HUGE_VAL
T_TV = 2 ** 63 - 512                   # decimal values from here on round to a double >= 2^63


def gen_numtok(R):
    k = R.random()
    if k < 0.3: s = str(R.randint(0, 10 ** R.randint(1, 25)))
    elif k < 0.4: s = '0' * R.randint(1, 3) + str(R.randint(0, 999))
    elif k < 0.55: s = R.choice([str(v) for v in (2 ** 63 - 1, 2 ** 63, 2 ** 63 + 1, 2 ** 31, 2 ** 32, 2 ** 64, T_TV - 1, T_TV, T_TV + 1, 2 ** 63 - 1024, 2 ** 63 - 1025, 2 ** 53, 2 ** 53 + 1,
                                                   T_HUGE - 1, T_HUGE, T_HUGE + 1, 10 ** 308, 10 ** 309 - 1, 10 ** 400, 65535, 65536, 0, 8, 9, 2 ** 31 - 1, 2 ** 31 - 1, 2 ** 31 - 2)] +
                                ['9' * 5000, '1' + '0' * 6000, '2147483647.0000001', '2147483647.00000011920928955078125', '2147483647.00000011920928955078126', '2147483647.0000002',
                                 '2147483647.00000011920928955078124', '2147483646.9999999', '2147483647.000000119209289550781250000000000000000000000000000000000001', '02147483647.'])
    elif k < 0.6: s = str(R.randint(1, 9)) + ''.join(R.choice('0123456789') for _ in range(R.choice([18, 19, 20, 307, 308, 309, 310])))
    else: s = str(R.randint(0, 10 ** R.randint(0, 20)))
    q = R.random() if '.' not in s else 1.0
    if q < 0.25: s += '.' + ''.join(R.choice('0123456789') for _ in range(R.randint(0, 8)))
    elif q < 0.32: s = '.' + ''.join(R.choice('0123456789') for _ in range(R.randint(1, 8)))
    elif q < 0.36: s = '.' + '0' * R.choice([300, 400]) + '1'
    elif q < 0.40: s += '.' + '9' * R.choice([1, 30])
    return s.encode()


def gen_longarg(R):
    k = R.random()
    if k < 0.55: return gen_numtok(R)
    if k < 0.8:
        ws = R.choice([b'', b'', b' ', b'\t\n ', b'\x0b\x0c\r'])
        sg = R.choice([b'', b'', b'+', b'-', b'+-', b'- '])
        body = R.choice([b'0x1f', b'0X1F', b'0x', b'0xg', b'0xffffffffffffffff', b'0x7fffffffffffffff', b'0x8000000000000000', b'12abc', b'abc', b'', b'0b11', b'08', b'0778', b'00',
                         b'9223372036854775807', b'9223372036854775808', b'9223372036854775809', b'1e5', b'0x1.8p3', b'7fff', b'0xABCdef', b'1 2', b'017777777777777777777777',
                         b'01000000000000000000000', b'0777777777777777777777'])
        return ws + sg + body
    return bytes(R.choice(b'0123456789xXabf+- .\x00\x80\xffz') for _ in range(R.randint(0, 12))).split(b'\x00')[0]


def num_unit(args):
    seed, n = args
    R = random.Random(seed)
    L = [gen_longarg(R) for _ in range(n)]
    Dn = [gen_numtok(R) for _ in range(n)]
    model = run_model(['L ' + hx(x) for x in L] + ['D ' + hx(x) for x in Dn])
    cres = run_batch('num', ['L' + hx(x) for x in L] + ['D' + hx(x) for x in Dn])
    st = collections.Counter(); diffs = []; V = []
    for x, m, r, kind in zip(L + Dn, model, cres, ['L'] * n + ['D'] * n):
        rp = dict(layer='config-lexer', kind='num', op=kind, text=hx(x))
        cls = diag_class(r)
        if kind == 'L':
            if r['exit'] == 0: c = r['out'].strip()
            elif cls == 'error parsing long integer value': c = 'reject parse'
            elif cls == 'long integer value would cause under/overflow': c = 'reject range'
            else: c = 'exit=%d sig=%d %s' % (r['exit'], r['sig'], cls)
            st['_strtolong: ' + ('value' if m.startswith('long') else m)] += 1
        else:
            if r['exit'] == 0 and r['out'].startswith('double '): c = 'double defined'
            elif cls == 'ubsan:float-cast-overflow': c = 'double undefined'
            elif cls == 'double value would cause overflow': c = 'reject range'
            elif cls == 'time value out of range': c = 'reject time-range'
            else: c = 'exit=%d sig=%d %s' % (r['exit'], r['sig'], cls)
            st['_strtodouble/_doubletotv: ' + m] += 1
            if c == 'double undefined': V.append(dict(sig=c18_predicate(r, mode='num'), text=x[:40].decode('latin-1'), digits=len(x), detail=r['err'][-300:], replay=rp))
        if c not in ('double undefined',) and c18_predicate(r, mode='num'): V.append(dict(sig=c18_predicate(r, mode='num'), text=hx(x[:40]), detail=r['err'][-300:], replay=rp))
        if c != m: diffs.append(dict(kind='number-differs', op=kind, text=x[:80].decode('latin-1'), digits=len(x), c=c, lean=m, replay=rp))
    sample = [dict(text=x[:30].decode('latin-1'), model=m) for x, m in list(zip(L + Dn, model))[:3] + list(zip(L + Dn, model))[n:n + 3]]
    return dict(n=2 * n, distinct=len(set(L)) + len(set(Dn)), diffs=diffs, violations=V, stats=st, sample=sample)


# ---------------------------------------------------------------- mandatory elements

KINDS = {0: 'login', 1: 'logout', 2: 'status', 6: 'ping', 7: 'on', 10: 'off', 13: 'cycle', 3: 'status_all'}
ACC_CLASS = {'duplicate script': 'dup-script', 'specification has no login script': 'no-login', 'device specification not found': 'no-spec', 'unknown device': 'no-device',
             'duplicate node': 'dup-node', 'duplicate node name': 'dup-node', 'plug already assigned': 'dup-node', 'parse error': 'empty-spec', 'no nodes are defined': 'no-nodes'}


def gen_items(R):
    """mostly well-formed configurations (specifications, then devices naming them, then nodes naming the devices), damaged
    with small probabilities: no login script, duplicate script, empty specification, dangling names, duplicate nodes, any order"""
    specs = []; devs = []; nodes = []
    for s in R.sample([1, 2, 3], R.randint(1, 3)):
        ks = R.sample(sorted(KINDS), R.randint(0, 4))
        if 0 in ks: ks.remove(0)
        if R.random() < 0.9: ks.insert(R.randint(0, len(ks)), 0)
        if R.random() < 0.06 and ks: ks.insert(R.randint(0, len(ks)), R.choice(ks))
        if R.random() < 0.03: ks = []
        specs.append(('s', s, ks))
    if R.random() < 0.1: specs.append(('s', R.choice(specs)[1], [0, 7]))                  # a second specification of the same name
    for d in R.sample([1, 2, 3], R.randint(0, 3)):
        devs.append(('d', d, R.choice(specs)[1] if R.random() < 0.92 else 4))
    if devs and R.random() < 0.1: devs.append(('d', R.choice(devs)[1], R.choice(specs)[1]))  # a second device of the same name
    for _ in range(R.randint(0, 4)):
        nm = R.randint(1, 6) if R.random() < 0.3 else 10 + len(nodes)
        nodes.append(('n', nm, R.choice(devs)[1] if devs and R.random() < 0.92 else 4))
    items = specs + devs + nodes
    k = R.random()
    if k < 0.12: R.shuffle(items)
    elif k < 0.2 and len(items) > 1:
        i = R.randrange(len(items)); items.insert(R.randrange(len(items)), items.pop(i))
    return items


def items_text(items):
    out = []
    for it in items:
        if it[0] == 's':
            out.append('specification "s%d" { %s }' % (it[1], ' '.join('script %s { send "x" }' % KINDS[k] for k in it[2])))
        elif it[0] == 'd': out.append('device "d%d" "s%d" "/bin/true |&"' % (it[1], it[2]))
        else: out.append('node "n%d" "d%d"' % (it[1], it[2]))
    return ('\n'.join(out) + '\n').encode()


def items_desc(items):
    return 'A ' + ';'.join('s%d:%s' % (it[1], ','.join(map(str, it[2]))) if it[0] == 's' else '%s%d:%d' % it for it in items)


def accept_unit(args):
    seed, n = args
    R = random.Random(seed)
    sc = Scratch('a')
    cases = [gen_items(R) for _ in range(n)]
    paths = [sc.write('a%d.conf' % i, items_text(it)) for i, it in enumerate(cases)]
    model = run_model([items_desc(it) for it in cases])
    cres = run_batch('file', paths)
    sc.close()
    st = collections.Counter(); diffs = []; V = []
    for it, m, r in zip(cases, model, cres):
        rp = dict(layer='config-lexer', kind='elements', items=items_desc(it), text=items_text(it).decode())
        s = c18_predicate(r, items_text(it), sc.d)
        if s: V.append(dict(sig=s, items=items_desc(it), detail=brief(r['err'] or r['out'], 500), replay=rp))
        if r['exit'] == 0 and r['out'].startswith('OK '): c = 'ok ' + ' '.join(r['out'].split()[1:3])
        else: c = 'reject ' + ACC_CLASS.get(diag_class(r, sc.d), 'exit=%d %s' % (r['exit'], diag_class(r, sc.d)))
        st['element sequences: ' + (m if m.startswith('reject') else 'accepted')] += 1
        if c != m: diffs.append(dict(kind='acceptance-differs', items=items_desc(it), c=c, lean=m, detail=r['err'][-200:], replay=rp))
    sample = [dict(items=items_desc(it)[:100], model=m) for it, m in list(zip(cases, model))[:4]]
    return dict(n=n, distinct=len(set(items_desc(it) for it in cases)), diffs=diffs, violations=V, stats=st, sample=sample)


# ---------------------------------------------------------------- whole-file search (observed part)

TOKEN_RE = re.compile(rb'"(?:\\.|[^"\\\n])*"|#[^\n]*|[0-9]+(?:\.[0-9]*)?|\.[0-9]+|[A-Za-z_]+|\s+|.', re.S)
KEYWORDS = [b'listen', b'tcpwrappers', b'plug_log_level', b'timeout', b'pingperiod', b'specification', b'expect', b'setplugstate', b'setresult', b'foreachnode', b'foreachplug',
            b'ifoff', b'ifon', b'send', b'delay', b'login', b'logout', b'status', b'status_all', b'on', b'on_ranged', b'on_all', b'off', b'off_all', b'cycle', b'reset', b'ping',
            b'device', b'plug name', b'node', b'yes', b'no', b'success', b'{', b'}', b'=', b'script', b'alias', b'include', b'$', b'"', b'\\', b'#']
BIGNUM = [b'9' * 20, b'9' * 400, b'9' * 5000, b'1e400', b'1' + b'0' * 308, b'0x10', b'1.5.3', b'-1', b'.', b'..5', b'18446744073709551616', b'9223372036854775808', b'99999999999999999999999',
          b'0.' + b'0' * 400 + b'1', b'00000000000000000000001', b'4294967297', b'2147483648']
BIGMP = [b'99999999999', b'2147483648', b'4294967297', b'21', b'20', b'020', b'0x5', b'.5', b'1.5', b'0', b'00', b'9223372036854775807', b'9' * 30, b'-1', b'']
LONGRUN = [lambda n: b' ' * n, lambda n: b'#' + b'c' * n + b'\n', lambda n: b'\t' * n, lambda n: b'7' * n, lambda n: b'"' + b's' * n + b'"', lambda n: b'\n' * n, lambda n: b'x' * n,
           lambda n: b'# ' + b'7' * 62 + b'\n' * 1 + (b'#' + b'7' * 62 + b'\n') * (n // 64)]
DEVLINES = [b'device "dx" "%s" "/dev/null"\n', b'device "dx" "%s" "/dev/null" "9600,8n1"\n', b'device "dx" "%s" "/dev/null" "garbage"\n', b'device "dx" "%s" "/dev/nonexistent" "9600,8n1"\n',
            b'device "dx" "%s" "localhost:1"\n', b'device "dx" "%s" "localhost:0"\n', b'device "dx" "%s" "localhost:99999"\n', b'device "dx" "%s" "localhost:abc"\n', b'device "dx" "%s" "localhost"\n',
            b'device "dx" "%s" "|&"\n', b'device "dx" "%s" "localhost:1" "telnet"\n', b'device "dx" "%s" "localhost:1" "bogus,quiet"\n', b'device "dx" "nosuchspec" "/bin/true |&"\n',
            b'device "dx" "%s"\n', b'device "dx" "%s" "a |&" "b" "c"\n', b'device "dx" "%s" "localhost:01"\n', b'device "dx" "%s" "localhost: 7x"\n', b'device "dx" "%s" ":1"\n', b'device "dx" "%s" ""\n']
TOPLINES = [b'alias "al" "n0"\n', b'alias "al" "bogus"\n', b'alias "al" "n[0-"\n', b'alias "n0" "n0"\n', b'listen "0.0.0.0:10101"\n', b'listen ""\n', b'plug_log_level "debug"\n', b'plug_log_level "bogus"\n',
            b'tcpwrappers\n', b'tcpwrappers yes\n', b'tcpwrappers no\n', b'node "n[1-3]" "d0"\n', b'node "n1" "d0" "1"\n', b'node "n[1-2]" "d0" "[1-3]"\n', b'node "n[3-1]" "d0"\n', b'node "n0" "d0"\n',
            b'node "x[1-100000]" "d0"\n', b'node "n1" "nosuchdev"\n', b'node "" "d0"\n', b'node "n5" "d0" ""\n', b'node "a,b" "d0" "1,1"\n', b'include "/nonexistent"\n', b'include "/"\n', b'include\n', b'include "\n',
            b'include x\n', b'include ""\n', b'include "/dev/zero"\n', b'include "/dev/null"\n']


def corpus():
    files = sorted(glob.glob(os.path.join(REPO, 'etc', 'devices', '*.dev')) + glob.glob(os.path.join(REPO, 't', 'etc', '*.dev')))
    out = []
    for p in files:
        t = open(p, 'rb').read()
        names = re.findall(rb'^\s*specification\s+"([^"]+)"', t, re.M)
        if names: out.append((os.path.basename(p), t, names[0]))
    return out


def nest(R, inner, depth):
    kw = [b'foreachplug', b'foreachnode', b'ifon', b'ifoff']
    k = R.choice(kw) if R.random() < 0.7 else None
    return b''.join((k or R.choice(kw)) + b' { ' for _ in range(depth)) + inner + b' }' * depth


def mutate(R, text, spec):
    """one mutation of a configuration text; returns (text, name of the mutation)"""
    toks = TOKEN_RE.findall(text)
    k = R.random()

    def join(ts): return b''.join(ts)
    if not toks: return text + R.choice(KEYWORDS), 'append'
    i = R.randrange(len(toks))
    if k < 0.07: del toks[i]; return join(toks), 'delete token'
    if k < 0.12: toks.insert(i, toks[i]); return join(toks), 'duplicate token'
    if k < 0.17:
        j = R.randrange(len(toks)); toks[i], toks[j] = toks[j], toks[i]; return join(toks), 'swap tokens'
    if k < 0.29:
        lines = text.split(b'\n'); a = R.randrange(len(lines)); q = R.random()
        if q < 0.35: del lines[a:a + R.randint(1, 4)]
        elif q < 0.6: lines[a:a] = lines[a:a + R.randint(1, 3)]
        else:
            b = R.randrange(len(lines)); lines[a], lines[b] = lines[b], lines[a]
        return b'\n'.join(lines), 'delete/duplicate/swap lines'
    if k < 0.37:
        b = bytearray(text)
        for _ in range(R.randint(1, 8)):
            if b: b[R.randrange(len(b))] ^= 1 << R.randrange(8)
        return bytes(b), 'flip bits'
    if k < 0.43: return text[:R.randrange(len(text) + 1)], 'truncate'
    if k < 0.50:
        p = R.randrange(len(text) + 1)
        return text[:p] + bytes(R.randrange(256) for _ in range(R.randint(1, 40))) + text[p:], 'insert random bytes'
    if k < 0.57:
        nums = [j for j, t in enumerate(toks) if t[:1].isdigit() or (t[:1] == b'.' and len(t) > 1)]
        if nums:
            j = R.choice(nums); mp = j > 0 and toks[j - 1] == b'$'
            toks[j] = R.choice(BIGMP if mp and R.random() < 0.7 else BIGNUM)
            return join(toks), 'replace a number ($N)' if mp else 'replace a number'
        return text + b'timeout ' + R.choice(BIGNUM), 'append number'
    if k < 0.62:
        # deep nesting of blocks around a statement
        st = [j for j, t in enumerate(toks) if t in (b'send', b'expect', b'delay')]
        depth = R.choice([2, 10, 300, 3000, 20000])
        if st:
            j = R.choice(st)
            # statement = keyword, blank, argument
            stmt = join(toks[j:j + 3]); toks[j:j + 3] = [nest(R, stmt, depth)]
            return join(toks), 'nest blocks %d deep' % depth
        return text + nest(R, b'send "x"', depth), 'append nested blocks'
    if k < 0.68:
        toks.insert(i, R.choice(KEYWORDS + [b'bogus', b'%', b'@', b'\x00', b'\xff', b'specification "z" {', b'script login {', b'script login { send "x" }', b'}', b'} }'])); return join(toks), 'insert a token'
    if k < 0.76:
        n = R.choice([100, 8191, 8192, 8193, 16384, 16385, 20000, 70000])
        toks.insert(i, R.choice(LONGRUN)(n)); return join(toks), 'insert a long run'
    if k < 0.82:
        return text + (R.choice(DEVLINES).replace(b'%s', spec)) + (b'node "nx" "dx"\n' if R.random() < 0.7 else b''), 'append a device line'
    if k < 0.88:
        l = R.choice(TOPLINES)
        if R.random() < 0.5: return text + l, 'append a top-level line'
        return l + text, 'prepend a top-level line'
    if k < 0.92:
        # sections in another order: move the (appended) device/node lines or a whole specification
        lines = text.split(b'\n'); R.shuffle(lines) if R.random() < 0.2 else lines.reverse() if R.random() < 0.2 else lines.insert(0, lines.pop())
        return b'\n'.join(lines), 'reorder lines'
    if k < 0.96:
        q = R.choice([(b'script login', b'script logout'), (b'script login', b'script  login'), (b'login', b'ping'), (b'timeout', b'pingperiod'), (b'plug name', b'plug  name'), (b'plug name', b'plugname'),
                      (b'"', b''), (b'{', b''), (b'}', b''), (b'\\', b'\\\\'), (b'\\n', b'\n'), (b'$', b'$ '), (b'$', b'$$'), (b'on=', b'on ='), (b'=', b'')])
        cnt = text.count(q[0])
        if cnt:
            which = R.randrange(cnt) if R.random() < 0.7 else -1
            if which < 0: return text.replace(q[0], q[1]), 'replace every %r' % q[0].decode()
            parts = text.split(q[0]); return q[0].join(parts[:which + 1]) + q[1] + q[0].join(parts[which + 1:]), 'replace one %r' % q[0].decode()
        return text, 'none'
    strs = [j for j, t in enumerate(toks) if t[:1] == b'"' and len(t) >= 2]
    if strs:
        j = R.choice(strs)
        body, _ = gen_body(R)
        toks[j] = b'"' + body + (b'"' if R.random() < 0.9 else b''); return join(toks), 'replace a string literal'
    return text, 'none'


def regression_corpus():
    """(name, files {name: bytes}, expectation): reproducers of defects repaired in the repository; they must stay repaired"""
    base = b'specification "s" { timeout 1 script login { send "a" } script status { send "x" expect "(a)(b)" '
    tail = b'device "d" "s" "/bin/true |&"\nnode "n" "d"\n'
    out = []
    out.append(('F25a numeric token pointer across a flex buffer reallocation (blanks)', base + b'setplugstate $1 $2' + b' ' * 20000 + b' on="b" } }\n' + tail, ('OK', '1,2')))
    out.append(('F25a numeric token pointer across a flex buffer reallocation (comment)', base + b'setplugstate $1 $2 #' + b'c' * 20000 + b'\n on="b" } }\n' + tail, ('OK', '1,2')))
    out.append(('F25a setresult', base + b'setresult $1 $2 success="a"' + b' ' * 20000 + b' } }\n' + tail, ('OK', '1,2')))
    out.append(('F25a single $N', base + b'setplugstate $2' + b'\t' * 40000 + b' } }\n' + tail, ('OK', '-1,2')))
    for off in (8165, 8170, 8176):
        pad = b'#' + b'c' * (off - len(base) - 2) + b'\n'
        out.append(('F25b $N before a flex read boundary (offset %d), digits further down' % off,
                    base + pad + b'setplugstate $1 $2 on="77" } }\n' + tail + (b'#' + b'7' * 62 + b'\n') * 300, ('OK', '1,2')))
        out.append(('F25b $N before a flex read boundary (offset %d), text further down' % off,
                    base + pad + b'setplugstate $1 $2 on="77" } }\n' + tail + b'# 5 filler 55555\n' * 700, ('OK', '1,2')))
    for v in (b'99999999999999999999', b'9223372036854775296', b'2147483648', b'1' + b'0' * 308):
        out.append(('F27 time value too large for a timeval (%s)' % v[:24].decode(), b'specification "s" { timeout ' + v + b' script login { send "a" } }\n' + tail, ('reject', 'time value out of range')))
    out.append(('F27 delay too large', b'specification "s" { timeout 1 script login { send "a" delay 4294967296.5 } }\n' + tail, ('reject', 'time value out of range')))
    out.append(('F27 largest time value', b'specification "s" { timeout 2147483647 pingperiod 2147483647.0000001 script login { send "a" delay 2147483647 } }\n' + tail, ('OK', '-')))
    out.append(('F26 serial device without flags', b'specification "s" { timeout 1 script login { send "a" } }\ndevice "d" "s" "/dev/null"\nnode "n" "d"\n', ('OK', '-')))
    out.append(('F8a string of 8192 bytes', b'specification "s" { timeout 1 script login { send "' + b'x' * 8192 + b'" } }\n' + tail, ('reject', 'string too long')))
    out.append(('F8a string of 8191 bytes', b'specification "s" { timeout 1 script login { send "' + b'x' * 8191 + b'" } }\n' + tail, ('OK', '-')))
    out.append(('F8b specification without login script', b'specification "s" { timeout 1 script status { send "a" } }\n' + tail, ('reject', 'specification has no login script')))
    out.append(('F8c malformed node range', b'specification "s" { timeout 1 script login { send "a" } }\ndevice "d" "s" "/bin/true |&"\nnode "t[0-3" "d"\n', ('reject', 'invalid node list')))
    return out


def split_include(R, text):
    """move a slice of the text into a second file and include it at that place (at token or at arbitrary byte boundaries,
    so that strings, comments and statements may straddle the end of the included file)"""
    if R.random() < 0.5:
        toks = TOKEN_RE.findall(text); a = R.randrange(len(toks) + 1); b = R.randint(a, len(toks))
        head, mid, rest = b''.join(toks[:a]), b''.join(toks[a:b]), b''.join(toks[b:])
    else:
        a = R.randrange(len(text) + 1); b = R.randint(a, len(text)); head, mid, rest = text[:a], text[a:b], text[b:]
    inc = R.choice([b'\ninclude "@INC@"\n', b' include "@INC@" ', b'\ninclude\t"@INC@"\n', b'include "@INC@"'])
    return head + inc + rest, mid


def fuzz_unit(args):
    seed, n = args
    R = random.Random(seed)
    sc = Scratch('f')
    cor = corpus()
    cases = []; paths = []
    if seed % 8 == 0 or n <= 0:                                    # the regression corpus rides along with every eighth unit
        for name, text, exp in regression_corpus():
            cases.append((text, 'regression: ' + name, exp, None)); paths.append(sc.write('r%d.conf' % len(cases), text))
    for i in range(max(n, 0)):
        extra = None
        if R.random() < 0.06:
            text = bytes(R.randrange(256) for _ in range(R.choice([0, 1, 7, 100, 5000, 20000]))) if R.random() < 0.6 else \
                b' '.join(R.choice(KEYWORDS + [b'"s"', b'1', b'"/bin/true |&"']) for _ in range(R.randint(1, 200)))
            how = ['random bytes / random tokens']
        else:
            name, text, spec = R.choice(cor)
            text = text + TAIL.replace(b'%s', spec)
            how = []
            for _ in range(R.choice([0, 1, 1, 1, 2, 2, 3, 5])):
                text, h = mutate(R, text, spec); how.append(re.sub(r'\d+', 'N', h))
            if R.random() < 0.08 and b'@INC@' not in text:
                text, extra = split_include(R, text); how.append('move a slice into an included file')
            if not how: how = ['unchanged shipped file']
        cases.append((text, how, None, extra))
        if extra is not None: text = text.replace(b'@INC@', sc.write('m%d.inc' % i, extra).encode())
        paths.append(sc.write('m%d.conf' % i, text))
    res = run_batch('file', paths)
    st = collections.Counter(); V = []; seen = set(); slow = 0
    for i, ((text, how, exp, extra), r) in enumerate(zip(cases, res)):
        seen.add(text + (extra or b''))
        rp = dict(layer='config-lexer', kind='file', seed=seed, index=i, how=how, text=base64.b64encode(text).decode() if len(text) < 200000 else None,
                  extra=base64.b64encode(extra).decode() if extra is not None else None)
        s = c18_predicate(r, text + (extra or b''), sc.d)
        cls = diag_class(r, sc.d)
        if s: V.append(dict(sig=s, how=how, size=len(text), detail=(brief(r['err']) or r['out'][-300:]), replay=rp))
        slow = max(slow, r['ms'])
        if exp is not None:
            st['regression corpus'] += 1
            ok = (exp[0] == 'OK' and r['exit'] == 0 and (' mps=%s ' % exp[1]) in r['out']) or (exp[0] == 'reject' and r['exit'] == 1 and cls == exp[1])
            if not ok: V.append(dict(sig='C18 regression: ' + how[12:].split(' (')[0][:60], want=exp, got=(r['out'] or r['err'])[-300:], replay=rp))
            continue
        if r['exit'] == 0 and r['out'].startswith('OK '):
            st['fuzz outcome: accepted (OK, start-up steps pass)'] += 1
            if ' tmo=0 ' in r['out']: st['observation: accepted with a device timeout of 0 (no `timeout` in the specification; not an abort)'] += 1
            if re.search(r' tmo=-', r['out']): st['observation: accepted with a negative device timeout'] += 1
        elif s: st['fuzz outcome: VIOLATION ' + s[:60]] += 1
        else: st['fuzz outcome: rejected, exit %d: %s' % (r['exit'], re.sub(r'\d+', 'N', cls)[:48])] += 1
        for h in how: st['mutation: ' + h] += 1
    sc.close()
    sample = [dict(how=h, size=len(t), result=(r['out'][:60] or diag_class(r))) for (t, h, e, x), r in list(zip(cases, res))[-3:]]
    st['slowest case (ms)'] = slow
    return dict(n=len(cases), distinct=len(seen), diffs=[], violations=V, stats=st, sample=sample)


# ---------------------------------------------------------------- the layer

UNITS = dict(string=string_unit, include=include_unit, num=num_unit, elements=accept_unit, file=fuzz_unit)


def run_unit(u):
    kind, seed, n = u
    r = UNITS[kind]((seed, n))
    r['kind'] = kind
    return r


class LexLayer:
    name = 'config-lexer'

    #             strings      includes   numbers    elements   whole files
    def __init__(self, quick=((8, 600), (2, 80), (2, 300), (2, 200), (8, 400)), thorough=((32, 1500), (8, 150), (8, 800), (8, 500), (64, 800))):
        self.quick = quick; self.thorough = thorough

    def build(self):
        build()

    def plan(self, tier, seed):
        cfg = self.thorough if tier == 'thorough' else self.quick
        units = []
        for (kind, (k, n)) in zip(('string', 'include', 'num', 'elements', 'file'), cfg):
            for j in range(k): units.append((kind, (seed * 7919 + j * 104729 + 11) * 8 + (0 if (kind == 'file' and j == 0) else 1 + j % 7), n))
        return units

    def run(self, prop, tier, seed):
        self.build()
        units = self.plan(tier, seed)
        # long units first
        rs = pmap(run_unit, sorted(units, key=lambda u: -u[2] * (3 if u[0] in ('string', 'file') else 1)))
        st = collections.Counter(); mx = 0
        for r in rs:
            mx = max(mx, r['stats'].pop('slowest case (ms)', 0))
            st.update(r['stats'])
        st['slowest whole-file case (ms)'] = mx
        per = collections.Counter()
        for r in rs: per['evaluations: ' + r['kind']] += r['n']
        st.update(per)
        samples = []
        for k in ('string', 'include', 'num', 'elements', 'file'):
            for r in rs:
                if r['kind'] == k: samples.append({k: r['sample']}); break
        return dict(name=self.name, evaluations=sum(r['n'] for r in rs), distinct=sum(r['distinct'] for r in rs), samples=samples,
                    stats=dict(sorted(st.items())), diffs=[d for r in rs for d in r['diffs']], violations=[v for r in rs for v in r['violations']],
                    rule='one evaluation = one run of the real configuration reader in a fresh process (ASan+UBSan incl. float-cast-overflow): a generated string literal through yylex() and '
                         'again through conf_init() down to the instantiated send format, compared with lexString of the model (accept/reject class and exact bytes); an include tree through '
                         'yylex() (token order and ending) and include chains through conf_init(); one call of the real _strtolong / _strtodouble+_doubletotv; one sequence of specification/'
                         'device/node items through conf_init() (accepted or rejection class); or one mutated shipped device file / random file through conf_init() followed by the start-up '
                         'steps that use mandatory elements (_enqueue_login, _enqueue_ping, device methods, plug list), judged by the C18 predicate only (exit 0 with OK, or exit 1/2 with a '
                         'diagnostic; never a signal, a sanitizer report, a hang > 10 s, a device without login script, or a match position that is not in the text). '
                         'distinct = distinct inputs per unit.  The flex/bison automata, malloc and regcomp are observed under the sanitizers, not modelled.')

    def replay(self, rp, v):
        binary = build()
        kind = rp.get('kind')
        sc = Scratch('replay')
        rc = 0
        try:
            if kind == 'string':
                body = base64.b64decode(rp['body']); rest = body + (SUFFIX if rp['closed'] else b'')
                p = sc.write('c.conf', PREFIX + rest)
                print('literal body (%d bytes): %r%s' % (len(body), body[:200], '' if rp['closed'] else '   [file ends here]'))
                print('Lean :', run_model(['S ' + hx(rest)])[0][:400])
                for mode in ('lex', 'string'):
                    r = run_batch(mode, [p])[0]
                    out = r['out'].split('\n')
                    print('C %-6s: exit=%d sig=%d %s | %s' % (mode, r['exit'], r['sig'], (out[NPREFIX_TOKENS] if mode == 'lex' and len(out) > NPREFIX_TOKENS else r['out'].strip())[:400], brief(r['err'], 1500).strip()))
                    if c18_predicate(r, mode=mode): print('PREDICATE', c18_predicate(r, mode=mode)); rc = 1
            elif kind == 'include':
                print(rp['tree']); print('Lean :', run_model([rp['tree']])[0])
                files = []
                for f in rp['tree'][2:].split(';'):
                    files.append(None if f == 'm' else 'DIR' if f == 'd' else [(x[0], int(x[1:])) for x in f[2:].split(',') if x])
                r = run_batch('lex', [write_tree(sc, files, 't')])[0]
                print('C    : exit=%d sig=%d tokens=%s | %s' % (r['exit'], r['sig'], [int(unhx(l[4:])) for l in r['out'].split('\n') if l.startswith('T S ')], brief(r['err'], 1500).strip()))
                if c18_predicate(r, mode='lex'): print('PREDICATE', c18_predicate(r, mode='lex')); rc = 1
            elif kind == 'include-conf':
                d = rp['depth']; files = [[('t', i)] + ([('i', i + 1)] if i < d else []) for i in range(d + 1)]
                r = run_batch('file', [write_tree(sc, files, 'c', None, conf=True)])[0]
                print('chain depth %d: exit=%d sig=%d %s | %s' % (d, r['exit'], r['sig'], r['out'].strip(), brief(r['err'], 1500).strip()))
                if c18_predicate(r): print('PREDICATE', c18_predicate(r)); rc = 1
            elif kind == 'num':
                x = unhx(rp['text'])
                print('%s %r' % (rp['op'], x[:200])); print('Lean :', run_model(['%s %s' % (rp['op'], hx(x))])[0])
                r = run_batch('num', [rp['op'] + hx(x)])[0]
                print('C    : exit=%d sig=%d %s | %s' % (r['exit'], r['sig'], r['out'].strip(), brief(r['err'], 1500).strip()))
                if c18_predicate(r, mode='num'): print('PREDICATE', c18_predicate(r, mode='num')); rc = 1
            elif kind == 'elements':
                print(rp['text']); print('Lean :', run_model([rp['items']])[0])
                r = run_batch('file', [sc.write('a.conf', rp['text'].encode())])[0]
                print('C    : exit=%d sig=%d %s | %s' % (r['exit'], r['sig'], r['out'].strip(), brief(r['err'], 1500).strip()))
                if c18_predicate(r, rp['text'].encode()): print('PREDICATE', c18_predicate(r, rp['text'].encode())); rc = 1
            elif kind == 'file':
                if rp.get('text') is None:
                    print('the input was too large to be stored; re-run the unit: seed=%s index=%s' % (rp.get('seed'), rp.get('index'))); return 1
                text = base64.b64decode(rp['text']); extra = base64.b64decode(rp['extra']) if rp.get('extra') is not None else None
                keep = os.path.join(REPLAYS, 'C18-input-%s.conf' % hashlib.sha1(text).hexdigest()[:10])
                os.makedirs(REPLAYS, exist_ok=True)
                if extra is not None:
                    with open(keep + '.inc', 'wb') as f: f.write(extra)
                    text = text.replace(b'@INC@', (keep + '.inc').encode())
                with open(keep, 'wb') as f: f.write(text)
                print('input (%d bytes, mutations: %s) written to %s' % (len(text), rp.get('how'), keep))
                print('run:  %s file %s' % (binary, keep))
                r = run_batch('file', [sc.write('m.conf', text)])[0]
                print('C    : exit=%d sig=%d timeout=%d ms=%d %s | %s' % (r['exit'], r['sig'], r['to'], r['ms'], r['out'].strip()[:600], brief(r['err'], 2000).strip()))
                s = c18_predicate(r, text + (extra or b''), sc.d)
                if s: print('PREDICATE', s); rc = 1
                if v and str(v.get('sig', '')).startswith('C18 regression') and not s:
                    print('expected', v.get('want')); rc = 1
            elif kind == 'events':
                print('E', rp['events'], '->', run_model(['E ' + rp['events']])[0]); rc = 1
            else:
                print('unknown replay kind', kind); rc = 1
        finally:
            sc.close()
        return rc
