"""hostlist correspondence: real liblsd/hostlist.c (harness/u_hostlist.c) vs the Lean mirrors (HlMain driver),
plus C14 predicates evaluated on the C side's own answers (expansion before/after every operation)."""
import collections, os, random, subprocess, re
from common import *


def build():
    return cc('u_hostlist', ['u_hostlist.c', S('liblsd/hostlist.c'), S('libcommon/error.c'), S('libcommon/xmalloc.c')], san=True)


PREFIXES = ['t', 'n', 'foo', 'a1b', 'x-', 'node', 'r2d', 'h_', 'c0', 'T.', 'n12', 'a05', 'node10', 'x100', 'r7_3']
LONGPFX = ['q' * 62 + 'z', 'w' * 79, 'v' * 80, 'u' * 81 + '-', 'y' * 130]       # around the 64 / 80 byte name buffers of liblsd (F37)


def gen_name(R, pool):
    r = R.random()
    if pool and r < 0.35: return R.choice(pool)
    p = R.choice(PREFIXES) if R.random() > 0.03 else R.choice(LONGPFX)
    k = R.random()
    if k < 0.08: n = p.rstrip('0123456789-_.') or 'z'        # no numeric suffix
    elif k < 0.5: n = p + str(R.randint(0, 30))
    elif k < 0.7: n = p + '%0*d' % (R.randint(2, 4), R.randint(0, 120))
    elif k < 0.8: n = p + str(R.choice([99, 100, 999, 1000, 9, 10, 33554431, 33554432, 33554433, 123456789, 999999999]))
    elif k < 0.9: n = p + str(R.randint(0, 12)) + R.choice(['-ib', 'x', '.m'])      # suffix after the number
    else: n = p + '0' * R.randint(1, 3) + str(R.randint(0, 9))
    return n


def gen_expr(R):
    """a bracket expression within the documented limits, or (rarely) a malformed one"""
    p = R.choice(PREFIXES) if R.random() > 0.04 else R.choice(LONGPFX)
    parts = []
    for _ in range(R.randint(1, 3)):
        w = R.choice([0, 0, 2, 3]) if R.random() > 0.04 else R.choice([14, 15, 16, 19, 25])      # numeric parts longer than 14 digits (F37)
        lo = R.randint(0, 40)
        if R.random() < 0.6:
            hi = lo + R.randint(0, 12)
            parts.append('%0*d-%0*d' % (w, lo, w, hi))
        else: parts.append('%0*d' % (w, lo))
    s = p + '[' + ','.join(parts) + ']'
    if R.random() < 0.15: s += R.choice(['-ib', 'x'])
    r = R.random()
    if r < 0.04: s = p + '[5-1]'
    elif r < 0.06: s = p + '[1-'
    elif r < 0.08: s = p + '1]'
    elif r < 0.08: s = p + '[1-100000]'
    elif r < 0.09: s = p + R.choice(['[0-18446744073709551615]', '[1-18446744073709551616]', '[7-18446744073709551615]'])     # hi - lo + 1 wraps in unsigned long (F30)
    elif r < 0.10: s = p + '[a-b]'
    if R.random() < 0.3: s += ',' + gen_name(R, [])
    if R.random() < 0.15: s = gen_name(R, []) + ',' + s
    return s


def gen_ops(seed, n, overlap=0.02):
    R = random.Random(seed)
    ops = []; pool = []
    for _ in range(n):
        r = R.random()
        if r < 0.04:
            e = gen_expr(R)
            k = R.random()
            if k < 0.02:
                # numeric parts beyond 2^25 in bracket form (F10): the list iterates them, find() must still see them
                base = R.choice([33554430, 100000000, 999999990]); pfx = R.choice(PREFIXES)
                e = '%s[%d-%d]' % (pfx, base, base + 3); pool = [pfx + str(base + 1), pfx + str(base + 3)]
            elif k < 0.02 + overlap:
                # overlapping ranges with mixed zero padding, then a sort (F19)
                e = R.choice(['f[97-100,066,97-103]', 'g[8-12,010,9-11]', 'f[1-3,02,1-4]']); pool = []
                ops.append('C ' + e); ops.append('E'); ops.append('S'); ops.append('E'); continue
            else:
                # the names the expression denotes (as far as this simple expander understands it) become candidates for find /
                # delete / nth: membership must agree with the expansion for names that entered through a bracket, too
                pool = []
                try:
                    import preds
                    pool = [x.decode() for x in preds.expand_hl(e.encode()) if not any(c in x.decode() for c in '[], \t')][:40]
                    R.shuffle(pool); pool = pool[:6]
                except Exception: pool = []
            ops.append('C ' + e)
        elif r < 0.40:
            nm = gen_name(R, pool); pool.append(nm); ops.append('P ' + nm)
        elif r < 0.55: ops.append('F ' + gen_name(R, pool))
        elif r < 0.62: ops.append('N ' + str(R.randint(0, 25)))
        elif r < 0.72: ops.append('D ' + gen_name(R, pool))
        elif r < 0.80: ops.append('S')
        elif r < 0.88: ops.append('R')
        elif r < 0.94: ops.append('T')
        else: ops.append('K')
        ops.append('E')
    return ops


class _Hung:
    """result of a side that did not finish: the library spins on some operation"""
    def __init__(self, out, err): self.returncode = -9; self.stdout = out; self.stderr = (err or '') + '\nHUNG: no answer within the time limit; the process was killed\n'


def run_side(cmd, ops, env=None, limit=120):
    try:
        r = subprocess.run(cmd, input='\n'.join(ops) + '\n', capture_output=True, text=True, env=env, timeout=limit)
    except subprocess.TimeoutExpired as e:
        dec = lambda b: b.decode('latin1') if isinstance(b, bytes) else (b or '')
        r = _Hung(dec(e.stdout), dec(e.stderr))
    out = r.stdout.split('\n')
    # the last element is the text after the final newline: empty for a complete answer, a torn line otherwise
    return out[:-1], r


def numeric_suffix(n):
    m = re.search(r'(\d+)$', n)
    return int(m.group(1)) if m else None


def check_props(ops, outs, V, st):
    """C14 on the implementation's own answers: E lines give the expansion before and after every op"""
    E = []
    for op, out in zip(ops, outs):
        k = op[0]; arg = op[2:]
        if k == 'E':
            E = out.split(' ')[1:] if out.startswith('E') else E
            continue
        st['C14 op ' + k] += 1
        # the expansion after this op is the next E answer
        idx = None
    # second pass with look-ahead
    E = []
    for i, (op, out) in enumerate(zip(ops, outs)):
        k = op[0]; arg = op[2:]
        if k == 'E':
            E = out.split(' ')[1:]; continue
        nxt = outs[i + 1].split(' ')[1:] if i + 1 < len(outs) and ops[i + 1] == 'E' else None
        if nxt is None: continue
        if k == 'C' and out.startswith('C ok'):
            # a created list denotes what the expression says (reference expansion, independent of the model: prefix[ranges]suffix
            # with zero padding kept; only expressions it understands and of moderate size)
            try:
                import preds
                want = [x.decode() for x in preds.expand_hl(arg.encode())]
            except Exception: want = None
            if want is not None and len(want) <= 4096 and not any(c in ''.join(want) for c in '[]') and all(0 < len(w) for w in want):
                st['C14 created lists checked against the reference expansion'] += 1
                if nxt != want: V.append(dict(sig='C14 a created list does not denote the names of its expression', at=i, op=op[:120], got=nxt[:12], want=want[:12]))
        if k == 'P':
            if nxt != E + [arg]: V.append(dict(sig='C14 push does not append exactly the pushed name', at=i, op=op, before=E[-5:], after=nxt[-6:]))
        elif k == 'F':
            want = E.index(arg) if arg in E else -1
            got = int(out.split()[1])
            if got != want:
                ns = numeric_suffix(arg)
                # F10: an entry created in bracket form with a numeric part beyond 2^25 is invisible to find(): it is missed
                # altogether, or a later pushed duplicate is reported instead of the first occurrence
                if (got == -1 or got > want) and ns is not None and ns > 33554432 and (got == -1 or E[got] == arg): V.append(dict(sig='find-miss numeric>33554432 bracket-form', at=i, op=op, want=want, got=got))
                else: V.append(dict(sig='C14 find disagrees with the expansion', at=i, op=op, got=got, want=want, expansion=E[:12]))
            if nxt != E: V.append(dict(sig='C14 find changed the list', at=i, op=op))
        elif k == 'N':
            j = int(arg); want = E[j] if j < len(E) else '(null)'
            if out != 'N ' + want: V.append(dict(sig='C14 nth disagrees with the expansion', at=i, op=op, got=out, want=want))
        elif k == 'D':
            want = list(E)
            # hostlist_delete_host removes the first occurrence
            if arg in want: want.remove(arg)
            if nxt != want:
                ns = numeric_suffix(arg)
                later = list(E)
                if ns is not None and ns > 33554432 and arg in E:
                    # the first occurrence (bracket form) is invisible: nothing, or a later duplicate, is removed instead
                    idxs = [j for j, x in enumerate(E) if x == arg]
                    alts = [E] + [E[:j] + E[j + 1:] for j in idxs[1:]]
                else: alts = []
                if nxt in alts: V.append(dict(sig='find-miss numeric>33554432 bracket-form', at=i, op=op))
                else: V.append(dict(sig='C14 delete removed something else than the first occurrence', at=i, op=op, before=E[:12], after=nxt[:12]))
        elif k == 'S':
            if sorted(nxt) != sorted(E): V.append(dict(sig='C14 sort changed the multiset of names', at=i, before=E[:12], after=nxt[:12]))
        elif k == 'R':
            if nxt != E: V.append(dict(sig='C14 ranged_string changed the list', at=i))
        elif k == 'T':
            got = out.split(' ')[1:] if out != 'T NULL' else None
            if got != E: V.append(dict(sig='C14 compress-then-expand does not round-trip', at=i, expansion=E[:12], got=(got or ['NULL'])[:12]))
        elif k == 'C':
            st['C14 create ' + ('rejected' if out == 'C NULL' else 'accepted')] += 1


def one(args):
    seed, n = args
    binary = build()
    ops = gen_ops(seed, n)
    c_out, rc = run_side([binary], ops, env=ASAN_ENV)
    l_out, rl = run_side([os.path.join(LEANBIN, 'hldriver')], ops)
    diffs = []; V = []; st = collections.Counter()
    died = rc.returncode != 0 or len(c_out) < len(ops)
    m = min(len(c_out), len(l_out), len(ops))
    for i in range(m):
        if c_out[i] != l_out[i]:
            # the model's answer to an aborting sort is "S ABORT" followed by an emptied list; the C side dies instead
            diffs.append(dict(at=i, kind='answer-differs', op=ops[i][:200], c=c_out[i][:300], lean=l_out[i][:300], history=ops[max(0, i - 6):i]))
            break
    if died:
        i = len(c_out)
        pred = i < len(l_out) and l_out[i] == 'S ABORT'
        st['runs ended by a death of the real code'] += 1
        if pred:
            st['death predicted: S ABORT'] += 1
            V.append(dict(sig='sort overlap mixed-width', at=i, op=ops[i] if i < len(ops) else '', detail=rc.stderr[-600:], history=[o for o in ops[max(0, i - 12):i] if o != 'E']))
        else:
            diffs.append(dict(at=i, kind='death-not-predicted', stderr=rc.stderr[-1200:], op=ops[i] if i < len(ops) else ''))
            V.append(dict(sig='C14 hostlist library hangs' if 'HUNG' in rc.stderr else 'C14 hostlist library died', at=i, op=ops[i] if i < len(ops) else '', detail=rc.stderr[-1200:]))
    check_props(ops[:len(c_out)], c_out, V, st)
    for v in V: v['replay'] = dict(layer='hostlist', seed=seed, n=n, ops=ops[:v.get('at', 0) + 2] if v.get('at', 0) < 400 else None)
    for d in diffs: d['replay'] = dict(layer='hostlist', seed=seed, n=n)
    distinct = len(set(o for o in ops if o != 'E'))
    sample = dict(seed=seed, ops=[o for o in ops[:24] if o != 'E'], answers=[a for o, a in zip(ops[:24], c_out[:24]) if o != 'E'])
    return dict(n=min(len(c_out), len(ops)), distinct=distinct, diffs=diffs, violations=V, stats=st, sample=sample)


class HostlistLayer:
    name = 'hostlist'

    def __init__(self, quick=(32, 1500), thorough=(512, 8000)):
        self.quick = quick; self.thorough = thorough

    def build(self):
        build()

    def run(self, prop, tier, seed):
        ns, n = self.quick if tier == 'quick' else self.thorough if tier == 'thorough' else (self.quick[0] * 4, self.quick[1])
        self.build()
        rs = pmap(one, [(seed * 7907 + k * 104729 + 3, n) for k in range(ns)])
        st = collections.Counter()
        for r in rs: st.update(r['stats'])
        return dict(name=self.name, evaluations=sum(r['n'] for r in rs), distinct=sum(r['distinct'] for r in rs), samples=[rs[0]['sample']],
                    stats=dict(sorted(st.items())), diffs=[d for r in rs for d in r['diffs']], violations=[v for r in rs for v in r['violations']],
                    rule='one evaluation = one hostlist API call on the real library (create / push / find / nth / delete_host / sort / ranged_string / compress-reparse, each followed by a full expansion), compared answer by answer with the Lean mirror; names over prefixes ending in letters, digits and punctuation, widths 1-4 with leading zeros, numeric parts up to 9 digits and on both sides of 2^25, post-bracket suffixes, malformed brackets; distinct = distinct op lines per run')

    def replay(self, rp, v):
        binary = build()
        ops = rp.get('ops') or gen_ops(rp['seed'], rp['n'])
        c_out, rc = run_side([binary], ops, env=ASAN_ENV)
        l_out, rl = run_side([os.path.join(LEANBIN, 'hldriver')], ops)
        for i, o in enumerate(ops[-14:]):
            j = len(ops) - 14 + i if len(ops) >= 14 else i
            print(o, '|C:', c_out[j] if j < len(c_out) else '<dead>', '|Lean:', l_out[j] if j < len(l_out) else '<none>')
        if rc.returncode != 0: print(rc.stderr[-1500:])
        V = []; st = collections.Counter(); check_props(ops[:len(c_out)], c_out, V, st)
        for x in V[:5]: print('PREDICATE', x)
        return 1 if (V or rc.returncode != 0) else 0
