"""Property predicates evaluated on the *implementation's* trace (lib/trace.py) for the 'mixp' configuration.
They are the search for a failing input: a hit is a concrete history on which the property fails on the real code."""
import collections, re

CONF_MIXP = dict(
    devs={0: dict(name=b'd0', plugs={str(i).encode(): (b't%d' % i if i < 8 else None) for i in range(16)}, login=b'login\n'),
          1: dict(name=b'd1', plugs={str(i).encode(): (b'u%d' % i if i < 4 else None) for i in range(5)}, login=None)},
)
NODE2DEV = {}
for di, d in CONF_MIXP['devs'].items():
    for pl, nd in d['plugs'].items():
        if nd: NODE2DEV[nd] = (di, pl)

TERMINAL = re.compile(rb'^[12]\d\d ')
CODES = {1, 101, 102, 103, 104, 105, 201, 202, 203, 204, 205, 206, 207, 208, 209, 210, 211, 212, 213, 301, 302, 303, 304, 305, 306, 307, 308, 309}
POWER = {7: b'on', 10: b'off', 13: b'cycle', 16: b'reset', 23: b'flash', 25: b'unflash'}
PROMPT = b'powerman> '


def expand_hl(s):
    """host-range expansion for the names the generator uses (prefix[ranges]suffix, comma separated)"""
    out = []; depth = 0; cur = b''
    parts = []
    for ch in s:
        c = bytes([ch])
        if c == b'[': depth += 1
        if c == b']': depth -= 1
        if c == b',' and depth == 0:
            parts.append(cur); cur = b''
        else: cur += c
    if cur: parts.append(cur)
    for p in parts:
        m = re.match(rb'^([^\[]*)\[([^\]]*)\](.*)$', p)
        if not m:
            out.append(p); continue
        pre, body, suf = m.groups()
        for r in body.split(b','):
            if b'-' in r:
                lo, hi = r.split(b'-')
                w = len(lo)
                if int(hi) - int(lo) >= 16384: raise ValueError('too many hosts in range')      # MAX_RANGE: the library refuses these
                for k in range(int(lo), int(hi) + 1): out.append(pre + (b'%0*d' % (w, k)) + suf)
            else: out.append(pre + r + suf)
    return out



def line_passes(events):
    """pass index in which each complete input line of a client was read to its end (that is the pass that parses it)"""
    out = []
    for (pi, kind, b) in events:
        if kind == 'in': out += [pi] * b.count(b'\n')
    return out


def attribute(cin, items, with_index=False):
    """pair the complete input lines of one client with the reply lines they caused.
    A 208 answers the next unread input line on the spot; any other line belongs to the command in progress, which
    is the next unread input line when none is in progress; a terminal line (other than 208) ends the command.
    Returns list of (input line, [reply items], complete?)."""
    lines = cin.split(b'\n')[:-1]
    out = []; k = 0; cur = None
    for it in items:
        if it[0] != 'line' or it[1] == 1: continue
        if it[1] == 208:
            if cur is None:          # a command is in progress that has produced no line yet: the next unread line
                if k >= len(lines): break
                cur = (lines[k], [], k); k += 1
            if k < len(lines): out.append((lines[k], [it], True, k)); k += 1
            continue
        if it[1] == 203:
            # `203 Command too long` is decided before the busy test: it answers its own line on the spot (with a prompt) even
            # while a command is in progress
            tl = lambda j: j < len(lines) and len(lines[j].split(b'\0')[0].strip(b' \t\n\v\f\r')) >= 131072
            if cur is None and not tl(k) and tl(k + 1):
                cur = (lines[k], [], k); k += 1          # a command in progress that has produced no line yet
            if cur is not None:
                if k < len(lines): out.append((lines[k], [it], True, k)); k += 1
                continue
        if cur is None:
            if k >= len(lines): break
            cur = (lines[k], [], k); k += 1
        cur[1].append(it)
        if 100 <= it[1] < 300:
            out.append((cur[0], cur[1], True, cur[2])); cur = None
    if cur is not None: out.append((cur[0], cur[1], False, cur[2]))
    return out if with_index else [x[:3] for x in out]


ALIASES = {}      # alias name -> expanded member list (set by the layer for the configuration in use)


def exp_aliases(names):
    """conf_exp_aliases on an expanded name list: the names that are no alias, in order, then the members of every alias
    occurrence in the order met (an alias typed twice is expanded twice; no recursion)"""
    if not ALIASES: return names
    keep = [n for n in names if n not in ALIASES]
    return keep + [m for n in names if n in ALIASES for m in ALIASES[n]]


def parse_req(ln):
    s = ln.split(b'\0')[0].strip()
    m = re.match(rb'^(on|off|cycle|reset|flash|unflash|status|temp|beacon)\s+(\S+)$', s, re.I)
    if not m: return None
    try: targets = exp_aliases(expand_hl(m.group(2)))
    except Exception: return None
    return m.group(1).lower(), targets, s


class ClientView:
    """per client connection: bytes the daemon read, bytes it wrote, lines and requests"""

    def __init__(self, fd):
        self.fd = fd; self.cin = b''; self.cout = b''; self.events = []   # (pass index, 'in'/'out', bytes)


def client_views(tr):
    cv = {}
    for p in tr:
        for l in p.sys:
            if l[0] == 'accept' and int(l[1]) >= 0: cv[int(l[1])] = ClientView(int(l[1]))
        for fd, n in p.reads.items():
            if fd < 2000 and n > 0 and fd in cv:
                b = p.delivered.get(fd, {}).get('data', b'')[:n]; cv[fd].cin += b; cv[fd].events.append((p.i, 'in', b))
        for fd, w in p.writes.items():
            if fd < 2000 and fd in cv and w['data']:
                cv[fd].cout += w['data']; cv[fd].events.append((p.i, 'out', w['data']))
    return cv


def split_out(b):
    """server output → list of (kind, payload): ('prompt',), ('line', code, text), ('junk', bytes); tail = incomplete rest"""
    items = []
    while b:
        if b.startswith(PROMPT):
            items.append(('prompt',)); b = b[len(PROMPT):]; continue
        j = b.find(b'\r\n')
        if j < 0: break
        ln = b[:j]; b = b[j + 2:]
        if re.match(rb'^\d\d\d ', ln) and int(ln[:3]) in CODES and b'\r' not in ln and b'\n' not in ln: items.append(('line', int(ln[:3]), ln[4:]))
        else: items.append(('junk', ln))
    return items, b


def p_c15(tr, V, st):
    """everything written to a client is CRLF lines `NNN text` with documented codes, banner+prompt first,
    prompt only after banner/terminal line, no 3xx directly before a prompt"""
    for fd, cv in client_views(tr).items():
        items, tail = split_out(cv.cout)
        st['C15 client streams'] += 1; st['C15 lines'] += len(items)
        if not items: continue
        if not (items[0][0] == 'line' and items[0][1] == 1): V.append(dict(sig='C15 no banner', fd=fd, got=repr(items[0])[:80]))
        prev = None
        for k, it in enumerate(items):
            if it[0] == 'junk':
                V.append(dict(sig='C15 malformed line', fd=fd, line=repr(it[1][:80]))); break
            if it[0] == 'prompt':
                ok = prev is not None and prev[0] == 'line' and (prev[1] == 1 or 100 <= prev[1] < 300)
                if not ok:
                    V.append(dict(sig='C15 prompt misplaced', fd=fd, after=repr(prev)[:80])); break
            if it[0] == 'line' and it[1] == 1 and k != 0:
                V.append(dict(sig='C15 second banner', fd=fd)); break
            prev = it


def p_c04(tr, V, st):
    """at every quiescent point of a client (no command, nothing queued to send, no complete line unread):
    number of terminal lines written == number of complete lines read; a prompt follows each terminal except 208/101"""
    cin = collections.defaultdict(bytes); cout = collections.defaultdict(bytes); quitseen = {}
    outstanding_since = {}; seen_q = {}
    for p in tr:
        for fd, n in p.reads.items():
            if fd < 2000 and n > 0: cin[fd] += p.delivered.get(fd, {}).get('data', b'')[:n]
        for fd, w in p.writes.items():
            if fd < 2000: cout[fd] += w['data']
        for fd, c in p.clients.items():
            if c['pending'] == -1 and not c['to'] and b'\n' not in c['frm']:
                # nothing read or written for this client since its last quiescent point: the same verdict (a long stream is not
                # split again in every idle pass)
                key = (len(cin[fd]), len(cout[fd]), c['quit'])
                if seen_q.get(fd) == key: continue
                seen_q[fd] = key
                nin = cin[fd].count(b'\n')
                items, tail = split_out(cout[fd])
                nterm = sum(1 for it in items if it[0] == 'line' and 100 <= it[1] < 300)
                st['C04 quiescent points'] += 1
                if nterm != nin:
                    V.append(dict(sig='C04 terminal count', at=p.i, fd=fd, lines_in=nin, terminals_out=nterm, tail_in=repr(cin[fd][-80:]), tail_out=repr(cout[fd][-160:])))
                # prompt placement: every terminal line other than 208/101 is followed by a prompt unless the client had quit/EOF
                if not c['quit']:
                    for k, it in enumerate(items):
                        if it[0] == 'line' and 100 <= it[1] < 300 and it[1] not in (208, 101):
                            nxt = items[k + 1] if k + 1 < len(items) else None
                            if nxt is None or nxt[0] != 'prompt':
                                # lines answered after `quit` legitimately lack the prompt; the client is then flagged quit, excluded above
                                V.append(dict(sig='C04 prompt missing', at=p.i, fd=fd, after=repr(it)[:80])); break
        # no-wedge: a request outstanding on some client ⇒ a timer is registered, or some descriptor interest can complete it
        if p.op.startswith('P'):
            busy = [c for c in p.clients.values() if c['pending'] > 0]
            if busy:
                st['C04 passes with outstanding request'] += 1
                queued = any(d.get('queue') for d in p.devs.values())
                if queued and p.tmo is None and not any(d.get('conn') == 2 and d.get('to') for d in p.devs.values()):
                    # every non-empty queue must be covered by a registered timeout (head deadline / reconnect back-off)
                    V.append(dict(sig='C04 outstanding request without timer', at=p.i))


DEV_TO_MAX = 65536      # MAX_DEV_BUF: dev->to is a cbuf in overwrite mode, what is queued beyond it overwrites the oldest unsent bytes
TELNET_ANSWERED = (3, 6, 24, 31, 39, 35, 32, 1, 33, 0)


def torn_head(b):
    """what is written first after dev->to stood at its capacity may begin inside a 3-byte telnet answer (the overwriting goes byte
    by byte): `WILL/WONT opt` or `opt` without their `IAC`.  Returns the data without such a fragment."""
    if len(b) >= 2 and b[0] in (251, 252) and b[1] in TELNET_ANSWERED: return b[2:]
    if len(b) >= 1 and b[0] in TELNET_ANSWERED: return b[1:]
    return b


def p_c10(tr, V, st):
    """on each new connection the first script bytes are the login script's (telnet option answers skipped);
    only the head action's kind can be the one sending (approximated: see DESIGN §6 C10).
    Beyond the capacity of dev->to (C10_post_poll_buffer: the buffer is `clipTo` of what was queued) the oldest queued bytes are
    overwritten: when the queue stood at 65536 bytes before the first write of a connection, the wire may begin inside a telnet
    answer and the login text, queued first, may be gone - counted, and nothing else is excused."""
    devfd = {}; fresh = {}; qfull = {}; lost = {}
    for p in tr:
        for fd, w in p.writes.items():
            b = w['data']
            if fd >= 2000 and b and fd in fresh:
                di = fresh.pop(fd); st['C10 connections checked'] += 1
                # the queue stood at its capacity on this connection before any script byte was written: what was queued first - the
                # login text - may have been overwritten
                over = lost.get(fd, False)
                if qfull.get(di, False): b = torn_head(b)
                while len(b) >= 3 and b[0] == 255 and b[1] in (251, 252): b = b[3:]
                if not b:
                    fresh[fd] = di; st['C10 connections checked'] -= 1
                else:
                    login = CONF_MIXP['devs'][di]['login']
                    if login and not b.startswith(login):
                        if over: st['C10 first write of a connection after the output buffer overran: the login text was overwritten'] += 1
                        else: V.append(dict(sig='C10 login not first', at=p.i, dev=di, first=repr(b[:40])))
        for di, d in p.devs.items():
            if 'to' in d: qfull[di] = len(d['to']) >= DEV_TO_MAX
            if 'conn' not in d: continue
            fd = d['fd']; stt = d['conn']
            if stt == 2 and devfd.get(di) != (fd, 2): fresh[fd] = di; lost[fd] = False
            if stt == 2 and fd in fresh and qfull.get(di): lost[fd] = True
            devfd[di] = (fd, stt)
            # while connected and not logged in, nothing but the login action may be at the head
            if stt == 2 and not d['logged'] and d.get('queue') and d['queue'][0][0] != 0:
                V.append(dict(sig='C10 non-login head before login', at=p.i, dev=di, queue=d['queue'][:4]))


def wire_lines(b):
    # telnet option answers (IAC WILL/WONT o) come from the transport, not from a script
    b = re.sub(rb'\xff[\xfb\xfc].', b'', b, flags=re.S)
    return [x for x in b.split(b'\n') if x and x[0] != 255]


def p_c01(tr, V, st):
    """every power command line a device receives names only plugs whose nodes are in the target set of a
    pending request of that kind; `*` only when the request covers every plug of the device"""
    verbs = {b'on': {7, 13}, b'off': {10, 13}, b'reset': {16}, b'flash': {23}, b'unflash': {25}}
    pend = {}    # client id -> (com, set(names))
    fd2dev = {}
    for p in tr:
        # requests pending at any time during this pass: those at the end of the previous pass plus those dumped now
        for cid, (com, cells) in p.args.items(): pend[cid] = (com, {c[0] for c in cells})
        for di, d in p.devs.items():
            if 'fd' in d and d['fd'] >= 0: fd2dev[d['fd']] = di
        for fd, w in p.writes.items():
            if fd < 2000 or fd not in fd2dev: continue
            di = fd2dev[fd]; plugs = CONF_MIXP['devs'][di]['plugs']
            for ln in wire_lines(w['data']):
                t = ln.split()
                if not t or t[0] not in verbs or len(t) < 2: continue
                st['C01 power lines on the wire'] += 1
                coms = verbs[t[0]]
                cand = [names for (com, names) in pend.values() if com in coms]
                if t[1] == b'*':
                    full = {n for n in plugs.values() if n}
                    if None in plugs.values() or not any(full <= names for names in cand):
                        V.append(dict(sig='C01 whole-device command without complete target', at=p.i, dev=di, line=repr(ln)))
                    continue
                named = expand_hl(t[1]) if b'[' in t[1] else [t[1]]
                for pl in named:
                    node = plugs.get(pl)
                    if node is None or not any(node in names for names in cand):
                        V.append(dict(sig='C01 plug commanded that no pending request names', at=p.i, dev=di, plug=repr(pl), line=repr(ln)))
        # a request is over when its client has no command and no device queue holds one of its actions
        # (a departed client's actions stay queued and are still run: C11)
        live = {c['id'] for c in p.clients.values() if c['pending'] > 0}
        for d in p.devs.values():
            for (com, cid) in d.get('queue', []): live.add(cid)
        for cid in list(pend):
            if cid not in live: del pend[cid]


def requests(tr):
    """per client fd: list of dict(com, names, start pass, end pass, out lines between)"""
    cv = client_views(tr)
    reqs = []
    cur = {}
    outpos = collections.defaultdict(int)
    outacc = collections.defaultdict(bytes)
    for p in tr:
        for fd, w in p.writes.items():
            if fd < 2000: outacc[fd] += w['data']
        for fd, c in p.clients.items():
            if c['pending'] > 0 and fd not in cur:
                com, cells = p.args.get(c['id'], (None, []))
                cur[fd] = dict(fd=fd, cid=c['id'], com=com, names=[x[0] for x in cells], start=p.i, exp=c['exp'], tele=c['tele'], outstart=len(outacc[fd]) + 0, cells=cells, devin=collections.defaultdict(bytes), devout=collections.defaultdict(bytes), to_at_start=c['to'])
            elif fd in cur and c['pending'] > 0:
                com, cells = p.args.get(c['id'], (None, []))
                cur[fd]['cells'] = cells; cur[fd]['error'] = c['error']
        # device input during the window
        for fd, n in p.reads.items():
            if fd >= 2000 and n > 0:
                for r in cur.values(): r['devin'][fd] += p.delivered.get(fd, {}).get('data', b'')[:n]
        for fd2, w in p.writes.items():
            if fd2 >= 2000 and w['data']:
                for r in cur.values(): r['devout'][fd2] += w['data']
        for fd in list(cur):
            c = p.clients.get(fd)
            if c is None or c['pending'] <= 0:
                r = cur.pop(fd); r['end'] = p.i; r['gone'] = c is None
                r['reply_pending'] = c['to'] if c else b''
                reqs.append(r)
    return reqs, outacc


def reply_of(r, outacc, tr):
    """the lines the daemon produced for request r: what was queued/written after it was installed up to its terminal line.
    Reconstructed from the client's `to` buffer + writes: total stream = bytes written so far + bytes still queued."""
    return None


def p_c02_c03(tr, V, st):
    """reply consistency on the client's full output stream (written + still queued at the end):
    power: 102 only if no 308/309 line belongs to the request, 210 only together with one;
    status/beacon: the three 302 lists partition the target set; every node shown on/off was reported so by its
    device during this query; temp: every target exactly once"""
    # full stream per client = written bytes + queue at the last dump in which the client existed
    cv = client_views(tr)
    # output still queued at the end of the run (only for clients alive in the last pass: what a departed client had queued
    # was either written in its last pass, and is in cout, or is lost)
    lastto = {fd: c['to'] for fd, c in tr[-1].clients.items()} if tr else {}
    cin = {fd: v.cin for fd, v in cv.items()}
    # walk per client: input lines in order ↔ replies in order
    for fd, v in cv.items():
        full = v.cout + lastto.get(fd, b'') if fd in lastto else v.cout
        items, tail = split_out(full)
        for ln, g, complete in attribute(v.cin, items):
            if not complete: continue
            rq = parse_req(ln)
            code = g[-1][1]
            if rq is None or code in (201, 203, 205, 208, 209, 213): continue
            verb, targets, s = rq
            infos = [it for it in g[:-1]]
            if verb in (b'on', b'off', b'cycle', b'reset', b'flash', b'unflash'):
                st['C02 power replies'] += 1
                bad = [it for it in infos if it[1] in (308, 309)]
                # a 308 (the action failed) always ends in 210; a 309 (one plug's result was unsuccessful) does unless the action was
                # started over after a reconnect and the node's result was successful then: checked with the device history in p_c02_retry
                if code == 102 and any(it[1] == 308 for it in bad): V.append(dict(sig='C02 success despite reported failure', fd=fd, line=repr(s), reply=repr(g)[:300]))
                if code == 210 and not bad: V.append(dict(sig='C02 error code without a line naming device or node', fd=fd, line=repr(s), reply=repr(g)[:300]))
                if code not in (102, 210): V.append(dict(sig='C02 unexpected terminal for a power request', fd=fd, code=code, line=repr(s)))
                for it in bad:
                    if it[1] == 308 and not re.match(rb'^d\d$', it[2].split(b':')[0]): V.append(dict(sig='C02 308 names no device', fd=fd, text=repr(it[2][:80])))
                    if it[1] == 309 and it[2].split(b':')[0] not in targets: V.append(dict(sig='C02 309 names a node outside the request', fd=fd, text=repr(it[2][:80]), line=repr(s)))
            elif verb in (b'status', b'beacon'):
                st['C03 status replies'] += 1
                if code not in (103, 211): V.append(dict(sig='C03 unexpected terminal for a query', fd=fd, code=code, line=repr(s)))
                shown = collections.Counter()
                l302 = [it for it in infos if it[1] == 302]; l303 = [it for it in infos if it[1] == 303]
                cls = {}
                for it in l302:
                    k, _, lst = it[2].partition(b':')
                    for n in expand_hl(lst.strip()) if lst.strip() else []:
                        shown[n] += 1; cls[n] = k.strip()
                for it in l303:
                    n, _, val = it[2].partition(b': ')
                    shown[n] += 1; cls[n] = val.strip()
                tset = collections.Counter(set(targets))
                # as sets: every target in exactly one class (a target typed twice is listed twice, in the same class)
                multi = [n for n in shown if shown[n] != targets.count(n)]
                if set(shown) != set(targets) or multi:
                    V.append(dict(sig='C03 reply does not partition the target set', fd=fd, line=repr(s), shown=repr(sorted(shown.items()))[:300]))
                has308 = any(it[1] == 308 for it in infos)
                if (code == 211) != has308: V.append(dict(sig='C03 terminal code disagrees with reported device failures', fd=fd, line=repr(s), code=code))
            elif verb == b'temp':
                st['C03 temp replies'] += 1
                shown = collections.Counter()
                for it in [it for it in infos if it[1] == 303]:
                    n, _, val = it[2].partition(b': ')
                    for x in expand_hl(n): shown[x] += 1
                dup = [n for n, c in shown.items() if c != targets.count(n)]
                if set(shown) != set(targets) or dup:
                    V.append(dict(sig='C03 temp reply lists a node twice or not at all', fd=fd, line=repr(s), dup=repr(dup[:4]), shown=repr(sorted(shown.items()))[:200]))


def p_c03_justified(tr, V, st):
    """a node shown on/off in a status reply was reported so by its device during that very query (mixp: vpc/x answer `plug N: ON|OFF`)"""
    reqs, outacc = requests(tr)
    fd2dev = {}
    for p in tr:
        for di, d in p.devs.items():
            if d.get('fd', -1) >= 0: fd2dev[d['fd']] = di
    for r in reqs:
        if r['com'] not in (2, 3, 21, 22) or r.get('gone'): continue
        # last dumped cells before completion
        for (node, state, res, val) in r['cells']:
            if state in (1, 2):
                st['C03 justified cells'] += 1
                di, pl = NODE2DEV.get(node, (None, None))
                want = b'plug ' + pl + b': ' + (b'ON' if state == 2 else b'OFF') + b'\n' if pl is not None else None
                seen = any(want in data for fd, data in r['devin'].items() if fd2dev.get(fd) == di) if want else False
                # the window of delivered bytes is per read; telnet filtering / NUL mapping may alter the text: accept the filtered form too
                if not seen:
                    flt = lambda b: re.sub(rb'\xff[\xfb-\xfe].|\xff[^\xff]', b'', b)
                    seen = any(want in flt(data) for fd, data in r['devin'].items() if fd2dev.get(fd) == di) if want else False
                if not seen and r['com'] in (21, 22) and di == 1:
                    # the beacon listing of the statement-coverage device names no outlet (the i-th line is the i-th plug): some line of
                    # that device's input during the query must at least end in the state shown
                    tail = b'ON\n' if state == 2 else b'OFF\n'
                    seen = any(tail in data for fd, data in r['devin'].items() if fd2dev.get(fd) == di)
                if not seen:
                    V.append(dict(sig='C03 state shown that the device did not report during this query', start=r['start'], end=r['end'], node=repr(node), state=state))


def memstr(b):
    """dbg_memstr"""
    out = b''
    for c in b:
        if c == 13: out += b'\\r'
        elif c == 10: out += b'\\n'
        elif c == 9: out += b'\\t'
        elif 32 <= c < 127: out += bytes([c])
        else: out += b'\\%03o' % c
    return out


def p_c11_tele(tr, V, st):
    """a telemetry line `305 recv(dN): '...'` shows bytes device N sent on its current connection and nothing else (no text of
    another device, connection or client): its payload is the escaped form of a piece of that connection's decoded stream"""
    state = {}; stream = {}; fdof = {}; total = {}; written = collections.defaultdict(bytes)
    for p in tr:
        if p.teardown or p.died: break
        cand = {}
        for di, d in p.devs.items():
            # the stream of the connection this pass started with (a time-out disconnects within the pass)
            fd0 = fdof.get(di)
            s0 = stream.get(di, b'')
            if fd0 is not None:
                n = p.reads.get(fd0, 0)
                if n and n > 0:
                    data = p.delivered.get(fd0, {}).get('data', b'')[:n]
                    if di == 0: state[di], kept = telnet_decode(state.get(di, 0), data)
                    else: kept = data
                    s0 += kept
            cand[di] = s0
            fd = d.get('fd', -1)
            if d.get('conn') != 2:
                stream.pop(di, None); state.pop(di, None); fdof[di] = None
            elif fd0 != fd:
                stream[di] = b''; state[di] = 0; fdof[di] = fd
            else:
                stream[di] = s0
        for fd, w in p.writes.items():
            if fd < 2000: written[fd] += w['data']
        for fd, c in p.clients.items():
            t = written[fd] + c['to']
            new = t[len(total.get(fd, b'')):] if t.startswith(total.get(fd, b'')) else b''
            total[fd] = t
            for ln in new.split(b'\r\n'):
                m = re.match(rb"^305 recv\(d(\d)\): '(.*)'$", ln, re.S)
                if not m: continue
                di = int(m.group(1)); st['C11 telemetry lines checked against the device stream'] += 1
                c0 = cand.get(di, b'')
                if m.group(2) not in memstr(c0) and m.group(2) not in memstr(c0.replace(b'\0', b'\xff')):    # `_getregex_buf` shows NUL as \377
                    V.append(dict(sig='C11 telemetry line shows text its device did not send on this connection', at=p.i, fd=fd, dev=di, line=repr(ln[:160]), stream_tail=repr(cand.get(di, b'')[-80:])))


def p_c06_toolong(tr, V, st):
    """a request line whose text (up to a NUL, white space stripped) is 131072 bytes or longer is answered `203 Command too long`
    and nothing else; a shorter one never is"""
    cv = client_views(tr)
    lastto = {fd: c['to'] for fd, c in tr[-1].clients.items()} if tr else {}
    for fd, v in cv.items():
        if len(v.cin) < 100000: continue
        items, _ = split_out(v.cout + lastto.get(fd, b''))
        for ln, g, complete in attribute(v.cin, items):
            if not complete or not g: continue
            text = ln.split(b'\0')[0].strip(b' \t\n\v\f\r')
            code = g[-1][1]
            if code == 208 and len(text) < 131072: continue
            if len(text) >= 100000: st['C06 request lines of 100 000 bytes and more answered'] += 1
            if (len(text) >= 131072) != (code == 203):
                V.append(dict(sig='C06 the 128 KiB limit on request lines is not enforced as documented', fd=fd, length=len(text), code=code, head=repr(text[:40])))
            elif code == 203 and len(g) != 1:
                V.append(dict(sig='C06 a too long request line produced more than its 203 reply', fd=fd, reply=repr(g)[:200]))


def p_c06_served(tr, V, st):
    """every connection the daemon accepts is in its client table at the end of that pass, with the banner and a prompt queued
    or written (a connection accepted but unreachable is never greeted, served or closed)"""
    for p in tr:
        if p.teardown or p.died: break
        for l in p.sys:
            if l[0] == 'accept' and int(l[1]) >= 0:
                fd = int(l[1]); st['C06 accepted connections checked'] += 1
                c = p.clients.get(fd)
                out = (c['to'] if c else b'') + p.writes.get(fd, {}).get('data', b'')
                if c is None or not out.startswith(b'001 '):
                    V.append(dict(sig='C06 accepted connection is not served (not in the client table, or no banner queued)', at=p.i, fd=fd, table=sorted(p.clients)))


def p_c11_events(tr, V, st):
    """readiness reported for one descriptor is never acted on for another: in every pass the daemon reads only from descriptors
    the poll of that very pass reported readable (a stale or foreign event would make it read - and, on EAGAIN, drop - an
    unrelated session)"""
    for p in tr:
        if p.teardown or p.died: break
        if not p.op.startswith('P'): continue
        for fd in p.reads:
            st['C11 reads checked against the poll result'] += 1
            d = p.delivered.get(fd)
            if d is None or not (d['rev'] & (1 | 4 | 8 | 16)):     # readable, hang-up, error, invalid: anything but 'writable' alone
                V.append(dict(sig='C11 descriptor read although poll did not report it readable in this pass', at=p.i, fd=fd, polled=repr(d)[:80]))


def p_c11(tr, V, st):
    """lines delivered to a client concern its own request: 303/309 node names and 302 lists within its target set,
    305 only with telemetry on; 208 only while a command is pending"""
    cv = client_views(tr)
    # output still queued at the end of the run (only for clients alive in the last pass: what a departed client had queued
    # was either written in its last pass, and is in cout, or is lost)
    lastto = {fd: c['to'] for fd, c in tr[-1].clients.items()} if tr else {}
    for fd, v in cv.items():
        full = v.cout + lastto.get(fd, b'')
        items, _ = split_out(full)
        for ln, g, complete in attribute(v.cin, items):
            rq = parse_req(ln)
            if rq is None or not g or g[-1][1] == 208: continue
            verb, tl, s = rq
            targets = set(tl)
            if complete: g = g[:-1] + [g[-1]]
            st['C11 replies attributed'] += 1
            for it in g:
                if it[1] == 303:
                    n = it[2].partition(b': ')[0]
                    for x in (expand_hl(n) if (b'[' in n or b',' in n) else [n]):
                        if x not in targets: V.append(dict(sig='C11 303 for a node outside the request', fd=fd, node=repr(x), line=repr(s)))
                if it[1] == 309:
                    n = it[2].partition(b': ')[0]
                    if n not in targets: V.append(dict(sig='C11 309 for a node outside the request', fd=fd, node=repr(n), line=repr(s)))
                if it[1] == 302:
                    lst = it[2].partition(b':')[2].strip()
                    for x in (expand_hl(lst) if lst else []):
                        if x not in targets: V.append(dict(sig='C11 302 lists a node outside the request', fd=fd, node=repr(x), line=repr(s)))
    # telemetry only for clients that asked: a 305 line can only be queued for a client whose telemetry flag is (or was) on
    teleon = set()
    for p in tr:
        for fd, c in p.clients.items():
            if c['tele']: teleon.add(fd)
    for fd, v in cv.items():
        if fd not in teleon:
            items, _ = split_out(v.cout + lastto.get(fd, b''))
            if any(it[0] == 'line' and it[1] == 305 for it in items):
                # the flag may have been toggled on and off between two dumps; accept only if `telemetry` was typed
                if b'telemetry' not in v.cin.lower(): V.append(dict(sig='C11 telemetry delivered to a client that never asked', fd=fd))


def p_c12(tr, V, st):
    """connection attempts (for a host with several addresses: one attempt = one walk over the list) of one device with no client
    enqueue on it in between are >= 1 s apart;
    when a device's queue is failed every client action in it is reported (pending bookkeeping via C04)"""
    last = {}
    prevq = {}
    for p in tr:
        # a client enqueue on a device that is not connected expedites its retries (retry_count := 0); it happens in
        # cli_post_poll, i.e. before this pass's connection attempts
        for di, d in p.devs.items():
            q = [a for a in d.get('queue', []) if a[1] != 0]
            old = [a for a in prevq.get(di, []) if a[1] != 0]
            grew = len(q) > len(old) or any(a not in old for a in q)
            if grew and di in last: last[di] = (last[di][0], True)
        # a request may be enqueued and failed within one pass (queue emptied by a time-out): any pass in which a client
        # line was read counts as 'client request present'
        if any(fd < 2000 and n > 0 for fd, n in p.reads.items()):
            for di in list(last): last[di] = (last[di][0], True)
            prevq[di] = d.get('queue', [])
        # one attempt of a tcp device = one walk over its address list (tcp_connect starts at the first address: the harness reports
        # the address index of every connect()); of a coprocess device = one socketpair
        starts = [di for di, ix in p.connects if ix == 0] + [1 for l in p.sys if l[0] == 'socketpair']      # mixp: the coprocess is device 1
        for di, ix in p.connects:
            if ix > 0: st['C12 connect() calls on a further address of the same attempt'] += 1
        for di in starts:
            st['C12 connection attempts'] += 1
            if di in last:
                t0, expedited = last[di]
                if not expedited and p.now - t0 < 1000000:
                    V.append(dict(sig='C12 reconnect attempts closer than the back-off allows', at=p.i, dev=di, gap_us=p.now - t0))
            last[di] = (p.now, False)


def p_c12_disconnect(tr, V, st):
    """when an action is reported as timed out on a device that was connected, the daemon drops that connection in the same
    pass (it never goes on using a session of unknown state): the descriptor of the device changes or the device is no longer connected"""
    names = {b'd0': 0, b'd1': 1}
    total = collections.defaultdict(int)        # bytes of client stream seen so far per fd
    written = collections.defaultdict(bytes)
    prev = {}
    for p in tr:
        newtext = {}
        for fd, w in p.writes.items():
            if fd < 2000: written[fd] += w['data']
        for fd, c in p.clients.items():
            stream = written[fd] + c['to']
            newtext[fd] = stream[total[fd]:]; total[fd] = len(stream)
        for fd, txt in newtext.items():
            for m in re.finditer(rb'308 (d\d): (action timed out waiting for expected response|login timeout)', txt):
                di = names.get(m.group(1))
                if di is None or di not in prev or di not in p.devs: continue
                st['C12 timeouts on connected devices'] += 1
                was = prev[di]; now = p.devs[di]
                if was.get('conn') == 2 and now.get('conn') == 2 and now.get('fd') == was.get('fd'):
                    V.append(dict(sig='C12 connection kept after a script timed out on it', at=p.i, dev=di, text=m.group(0).decode()))
        prev = {di: dict(d) for di, d in p.devs.items()}


def p_c20(tr, V, st):
    """descriptor and child ledger on the system calls the real code issued: at every pass boundary the open
    descriptors are exactly one per live client plus one per device that is not NOT_CONNECTED; every fork is
    matched by kill+waitpid before the next fork of that device; nothing is closed twice"""
    openfds = set(); kids = set(); prevdevs = {}
    for p in tr:
        for l in p.sys:
            if l[0] == 'accept' and int(l[1]) >= 0: openfds.add(int(l[1]))
            elif l[0] == 'socket': openfds.add(int(l[1]))
            elif l[0] == 'socketpair': openfds.add(int(l[1])); openfds.add(int(l[2]))
            elif l[0] == 'close':
                fd = int(l[1])
                if fd not in openfds: V.append(dict(sig='C20 close of a descriptor that is not open', at=p.i, fd=fd))
                openfds.discard(fd)
            elif l[0] == 'fork': kids.add(int(l[1]))
            elif l[0] == 'waitpid': kids.discard(int(l[1]))
        if p.died: break
        if p.teardown:
            # after cli_fini / dev_fini: nothing but the descriptor of a device that was still CONNECTING may remain (dev_destroy
            # disconnects CONNECTED devices only; recorded in DESIGN), and no child
            st['C20 teardowns checked'] += 1
            connecting = {d['fd'] for d in prevdevs.values() if d.get('conn', 0) == 1 and d.get('fd', -1) >= 0}
            if openfds - connecting:
                V.append(dict(sig='C20 descriptors left open by the shutdown path', at=p.i, fds=sorted(openfds - connecting)[:6]))
            if kids:
                V.append(dict(sig='C20 coprocess left running by the shutdown path', at=p.i, pids=sorted(kids)[:6]))
            break
        prevdevs = p.devs
        expect = {c['fd'] for c in p.clients.values()} | {d['fd'] for d in p.devs.values() if d.get('conn', 0) != 0 and d.get('fd', -1) >= 0}
        st['C20 pass boundaries'] += 1
        if openfds != expect:
            V.append(dict(sig='C20 descriptor ledger differs from live clients + connected devices', at=p.i, leaked=sorted(openfds - expect)[:5], missing=sorted(expect - openfds)[:5]))
            openfds = set(expect)
        nk = sum(1 for di, d in p.devs.items() if di == 1 and d.get('conn', 0) != 0)
        if len(kids) != nk:
            V.append(dict(sig='C20 live children differ from connected coprocess devices', at=p.i, kids=sorted(kids), connected=nk))
            kids = set(list(kids)[:nk])


def p_alive(tr, V, st):
    """C06/C07: the daemon is never killed by client or device input (death of the harness process = abort/exit/sanitizer)"""
    pass


def p_c08(tr, V, st):
    """every line a device receives is one of its specification's send strings with %s replaced by a plug name or a
    range expression (the allowed set is read from the specification files themselves, independently of the model)"""
    import os
    allowed = {}
    for di, path in ((0, os.path.join(_repo(), 't', 'etc', 'vpc.dev')), (1, os.path.join(os.path.dirname(os.path.dirname(os.path.abspath(__file__))), 'harness', 'xp.dev'))):
        pats = []
        for m in re.finditer(r'send\s+"((?:[^"\\]|\\.)*)"', open(path).read()):
            raw = m.group(1).encode().decode('unicode_escape').encode('latin1')
            rx = re.escape(raw).replace(re.escape(b'%s'), rb'[0-9\[\],\-]+')
            pats.append(re.compile(b'^' + rx + b'$', re.S))
        allowed[di] = pats
    fd2dev = {}; qfull = {}; carry = {}; qlen = {}
    for p in tr:
        for di, d in p.devs.items():
            if d.get('fd', -1) >= 0: fd2dev[d['fd']] = di
        for fd, w in p.writes.items():
            if fd < 2000 or fd not in fd2dev or not w['data']: continue
            b = w['data']
            if fd in carry and not qfull.get(fd2dev[fd]): b = carry.pop(fd) + b
            elif qfull.get(fd2dev[fd]):
                if carry.pop(fd, None): st['C08 unfinished unit on the wire whose rest was overwritten when the output buffer overran'] += 1
                # dev->to stood at its capacity (C08_send_bytes: the queue is `clipTo` of what was queued): the oldest bytes were
                # overwritten one by one, the wire may begin inside a telnet answer
                b2 = torn_head(b)
                if b2 != b: st['C08 writes that begin inside a telnet answer after the output buffer overran'] += 1
                b = b2
            if (w['ok'] and len(w['data']) < qlen.get(fd2dev[fd], 0)) or not w['ok']:
                # a short write (the kernel took the first piece of a wrapped ring, less than was queued when the pass began): what
                # it ends in - an unfinished telnet answer, an unfinished line - is judged together with the next write on this
                # connection (if the connection lives to see one).  A write that failed was offered the first piece of the ring
                # only: what that piece ends in never reached the device.
                m = re.search(rb'\xff[\xfb\xfc]?$', b)
                tail = b''
                if m: tail = b[m.start():]; b = b[:m.start()]
                k = b.rfind(b'\n') + 1
                if (b[k:] or tail) and w['ok']: carry[fd] = b[k:] + tail
                if w['ok'] or len(w['data']) > 1024: b = b[:k]
            # strip telnet option answers (IAC WILL/WONT o), which come from the transport, not from a script
            b = re.sub(rb'\xff[\xfb\xfc].', b'', b, flags=re.S)
            for ln in b.split(b'\n')[:-1] if b.endswith(b'\n') else b.split(b'\n'):
                if not ln: continue
                st['C08 script lines on the wire'] += 1
                if not any(rx.match(ln + b'\n') for rx in allowed[fd2dev[fd]]):
                    V.append(dict(sig='C08 bytes on the wire that are no send string of the specification', at=p.i, dev=fd2dev[fd], line=repr(ln[:60])))
        for di, d in p.devs.items():
            if 'to' in d: qfull[di] = len(d['to']) >= DEV_TO_MAX; qlen[di] = len(d['to'])


def _repo():
    import common
    return common.REPO



def align(mine, replies, com_of, when=None):
    """pair the observed request windows of one client with its attributed replies: both are in order, but a request that was
    installed and finished within one pass has no window, so match on (command, target set) and skip what does not fit.
    `when` (one entry per reply: the pass that read the request line to its end, which is the pass that installs it) pins the
    window: without it an argument-less `temp` followed by the same query spelled out is paired with the wrong window."""
    out = []; k = 0
    for ri, rep in enumerate(replies):
        rq = rep[0]
        if rq is None: continue
        verb, targets, line = rq
        com = com_of(verb)
        j = k
        while j < len(mine) and not (mine[j]['com'] == com and set(mine[j]['names']) == set(targets) and (when is None or when[ri] is None or mine[j]['start'] == when[ri])): j += 1
        if j < len(mine):
            out.append((mine[j], rep)); k = j + 1
    return out


VERB2COM = {b'on': 7, b'off': 10, b'cycle': 13, b'reset': 16, b'flash': 23, b'unflash': 25}


def p_c02_retry(tr, V, st):
    """a power request answered 102 although a `309 node: text` line was sent for it: legitimate only if the node's device lost
    its connection after that line was produced (the action is then run again from its first statement and the node's result
    replaced); otherwise the unsuccessful result was ignored"""
    reqs, _ = requests(tr)
    cv = client_views(tr)
    lastto = {fd: c['to'] for fd, c in tr[-1].clients.items()} if tr else {}
    for fd, v in cv.items():
        items, _ = split_out(v.cout + lastto.get(fd, b''))
        replies = []; when = []; lp = line_passes(v.events)
        for ln, g, complete, li in attribute(v.cin, items, with_index=True):
            rq = parse_req(ln)
            if complete and g and g[-1][1] in (102, 210, 103, 211): replies.append((rq, g[-1][1], g)); when.append(lp[li] if li < len(lp) else None)
        mine = [r for r in reqs if r['fd'] == fd]
        for r, (rq, code, g) in align(mine, replies, lambda v: VERB2COM.get(v), when):
            if code != 102: continue
            bad = [it for it in g if it[1] == 309]
            if not bad: continue
            st['C02 successful replies with a 309 line examined'] += 1
            # any device connection lost inside the window?
            lost = False
            for p in tr[r['start']:r['end'] + 1]:
                if any(d.get('conn') != 2 for d in p.devs.values()) or any(l[0] == 'close' and int(l[1]) >= 2000 for l in p.sys): lost = True
            if not lost:
                V.append(dict(sig='C02 success despite a reported unsuccessful result', at=r['end'], fd=fd, line=repr(rq[2]), reply=repr(g)[:300], start=r['start']))


def p_c02_wire(tr, V, st):
    """a power request answered 102 really addressed every named node: between the request and its reply a line naming the
    node's plug (its name, a range containing it, or `*`) was written to the node's device"""
    reqs, _ = requests(tr)
    cv = client_views(tr)
    lastto = {fd: c['to'] for fd, c in tr[-1].clients.items()} if tr else {}
    fd2dev = {}
    for p in tr:
        for di, d in p.devs.items():
            if d.get('fd', -1) >= 0: fd2dev[d['fd']] = di
    for fd, v in cv.items():
        items, _ = split_out(v.cout + lastto.get(fd, b''))
        replies = []
        lp = line_passes(v.events); when = []
        for ln, g, complete, li in attribute(v.cin, items, with_index=True):
            rq = parse_req(ln)
            # every installed command ends in one of these four codes: keep a place-holder for lines this parser does not read
            # (argument-less `status` / `temp` / `beacon`) so that requests and replies stay aligned
            if complete and g and g[-1][1] in (102, 210, 103, 211): replies.append((rq, g[-1][1])); when.append(lp[li] if li < len(lp) else None)
        mine = [r for r in reqs if r['fd'] == fd]
        for r, (rq, code) in align(mine, replies, lambda v: VERB2COM.get(v), when):
            verb, targets, line = rq
            if code != 102: continue
            st['C02 successful power requests checked on the wire'] += 1
            for node in set(targets):
                di, pl = NODE2DEV.get(node, (None, None))
                if di is None: continue
                named = False
                for dfd, data in r['devout'].items():
                    if fd2dev.get(dfd) != di: continue
                    for wl in wire_lines(data):
                        t = wl.split()
                        if len(t) < 2: continue
                        try: names = [b'*'] if t[1] == b'*' else (expand_hl(t[1]) if b'[' in t[1] else [t[1]])
                        except Exception: names = []
                        if b'*' in names or pl in names: named = True
                if not named:
                    V.append(dict(sig='C02 success reported but a named node was never addressed on its device', at=r['end'], fd=fd, line=repr(line), node=repr(node), start=r['start']))


# ------------------------------------------------------------------------------------------------ marker worlds
def marker_wire(tr, world):
    """every `K<kind> <arg>` line a device received: (pass, device, kind, plug names or ['*'])"""
    import daemon
    fd2dev = {}
    out = []
    for p in tr:
        for di, d in p.devs.items():
            if d.get('fd', -1) >= 0: fd2dev[d['fd']] = di
        for fd, w in p.writes.items():
            if fd < 2000 or fd not in fd2dev or not w['data']: continue
            b = re.sub(rb'\xff[\xfb\xfc].', b'', w['data'], flags=re.S)
            for ln in b.split(b'\n'):
                m = re.match(rb'^K(\d+) (\S+)$', ln)
                if m:
                    arg = m.group(2)
                    try: plugs = [b'*'] if arg == b'*' else (expand_hl(arg) if b'[' in arg else [arg])
                    except Exception: plugs = [arg]
                    out.append((p.i, fd2dev[fd], int(m.group(1)), plugs, ln))
                elif ln and ln != b'L':
                    out.append((p.i, fd2dev[fd], -1, [], ln))
    return out


def p_m_c01(world):
    import daemon

    def pred(tr, V, st):
        """marker configuration: every command a device receives decodes to (script kind, plug set); for power kinds the plugs
        are mapped to nodes named by a pending request of exactly that command; `*` only if every plug of the device is mapped
        and named; the argument is the configured plug name"""
        wire = marker_wire(tr, world)
        bypass = collections.defaultdict(list)
        for w in wire: bypass[w[0]].append(w)
        pend = {}
        for p in tr:
            for cid, (com, cells) in p.args.items(): pend[cid] = (com, {c[0] for c in cells})
            for (pi, di, kind, plugs, ln) in bypass.get(p.i, []):
                d = world.devs[di]
                if kind == -1:
                    V.append(dict(sig='C08 bytes on the wire that are no send string of the specification', at=p.i, dev=di, line=repr(ln[:60]))); continue
                if kind not in daemon.KIND2BASE or kind not in d['has']:
                    V.append(dict(sig='C01 a script kind ran that the device does not define', at=p.i, dev=di, line=repr(ln))); continue
                base, var = daemon.KIND2BASE[kind]
                st['marker wire lines %s' % var] += 1
                if base in daemon.QUERY_BASE: continue
                cand = [names for (com, names) in pend.values() if com == base]
                if plugs == [b'*']:
                    full = {n.encode() for n in d['node'].values() if n}
                    if var != 'a' or None in d['node'].values() or not any(full <= names for names in cand):
                        V.append(dict(sig='C01 whole-device command without complete target', at=p.i, dev=di, line=repr(ln), pending=repr(cand)[:200]))
                    continue
                if var == 'a':
                    V.append(dict(sig='C01 _all script sent a plug list', at=p.i, dev=di, line=repr(ln))); continue
                for pl in plugs:
                    node = d['node'].get(pl.decode('latin1'))
                    if node is None or not any(node.encode() in names for names in cand):
                        V.append(dict(sig='C01 plug commanded that no pending request names', at=p.i, dev=di, plug=repr(pl), line=repr(ln), pending=repr(cand)[:200]))
            live = {c['id'] for c in p.clients.values() if c['pending'] > 0}
            for d in p.devs.values():
                for (com, cid) in d.get('queue', []): live.add(cid)
            for cid in list(pend):
                if cid not in live: del pend[cid]
    pred.__name__ = 'p_m_c01'
    return pred


def p_m_c02(world):
    import daemon

    def pred(tr, V, st):
        """marker configuration: a power request answered 102 had, for every named node, a command of that very kind covering the
        node's plug written to the node's device between request and reply; answered 213 only if some involved device cannot
        handle it"""
        reqs, _ = requests(tr)
        wire = marker_wire(tr, world)
        cv = client_views(tr)
        lastto = {fd: c['to'] for fd, c in tr[-1].clients.items()} if tr else {}
        for fd, v in cv.items():
            items, _ = split_out(v.cout + lastto.get(fd, b''))
            replies = []
            lp = line_passes(v.events); when = []
            for ln, g, complete, li in attribute(v.cin, items, with_index=True):
                rq = parse_req(ln)
                if complete and g and g[-1][1] in (102, 210, 103, 211): replies.append((rq, g[-1][1], g)); when.append(lp[li] if li < len(lp) else None)
            mine = [r for r in reqs if r['fd'] == fd]
            for r, (rq, code, g) in align(mine, replies, lambda v: VERB2COM.get(v, {b'status': 2, b'temp': 19, b'beacon': 21}.get(v)), when):
                verb, targets, line = rq
                if r['com'] in daemon.QUERY_BASE:
                    # C03 justification: a node shown on/off (or with a value) was answered so by its device within the window
                    shown = {}
                    for it in g[:-1]:
                        if it[1] == 303:
                            n, _, val = it[2].partition(b': ')
                            for x in (expand_hl(n) if (b'[' in n or b',' in n) else [n]): shown[x] = val.strip()
                        if it[1] == 302:
                            k, _, lst = it[2].partition(b':')
                            for x in (expand_hl(lst.strip()) if lst.strip() else []): shown[x] = k.strip()
                    for n, val in shown.items():
                        if val in (b'unknown',) or n not in world.node2dev: continue
                        di, pl = world.node2dev[n]
                        st['C03 shown values checked against the device answers'] += 1
                        want = val
                        ok = any(opi >= r['start'] - 1 and opi <= r['end'] and d2 == di and p2 == pl and (s2 == want) for (opi, d2, p2, s2) in world.answers)
                        if not ok:
                            V.append(dict(sig='C03 state shown that the device did not report during this query', at=r['end'], node=repr(n), shown=repr(val), line=repr(line), start=r['start']))
                    continue
                if code != 102: continue
                st['C02 successful power requests checked on the wire'] += 1
                for node in set(targets):
                    if node not in world.node2dev: continue
                    di, pl = world.node2dev[node]
                    ok = False
                    for (pi, d2, kind, plugs, ln2) in wire:
                        if d2 != di or pi < r['start'] or pi > r['end'] or kind not in daemon.KIND2BASE: continue
                        if daemon.KIND2BASE[kind][0] != r['com']: continue
                        if plugs == [b'*'] or pl in plugs: ok = True
                    if not ok:
                        V.append(dict(sig='C02 success reported but a named node was never addressed on its device', at=r['end'], fd=fd, line=repr(line), node=repr(node), start=r['start']))
    pred.__name__ = 'p_m_c02'
    return pred


def p_c09_write(tr, V, st):
    """write side: for every client and every device connection, (bytes handed to the descriptor so far) ++ (bytes still queued)
    only ever grows at its end: nothing queued is dropped, duplicated or reordered however the writes are split - except that
    the queue of a device holds 65536 bytes: when it stands at that afterwards, its oldest bytes (and only those, and only as
    many as the new bytes exceed the room) may have been overwritten"""
    cw = collections.defaultdict(bytes); cprev = {}
    dw = {}; dprev = {}; dfd = {}; dqprev = {}
    for p in tr:
        if p.teardown or p.died: break
        for fd, w in p.writes.items():
            if fd < 2000: cw[fd] += w['data']
        for fd, c in p.clients.items():
            s = cw[fd] + c['to']
            if fd in cprev:
                st['C09 client streams checked'] += 1
                if not s.startswith(cprev[fd]):
                    k = next((i for i, (a, b) in enumerate(zip(s, cprev[fd])) if a != b), min(len(s), len(cprev[fd])))
                    V.append(dict(sig='C09 bytes queued for a client were lost, duplicated or reordered', at=p.i, fd=fd, offset=k, before=repr(cprev[fd][max(0, k - 20):k + 30]), after=repr(s[max(0, k - 20):k + 30])))
            cprev[fd] = s
        for fd in list(cprev):
            if fd not in p.clients: del cprev[fd]
        for di, d in p.devs.items():
            fd = d.get('fd', -1)
            if d.get('conn') != 2 or fd < 0 or dfd.get(di) != fd:
                dw[di] = b''; dprev.pop(di, None); dqprev.pop(di, None); dfd[di] = fd if d.get('conn') == 2 else None
                if d.get('conn') != 2: continue
            w = p.writes.get(fd)
            if w and w['ok'] and di in dprev or (w and w['ok'] and dfd.get(di) == fd): dw[di] = dw.get(di, b'') + w['data']
            q = d.get('to', b'')
            s = dw.get(di, b'') + q
            if di in dprev:
                st['C09 device streams checked'] += 1
                if not s.startswith(dprev[di]):
                    # dev->to holds MAX_DEV_BUF = 65536 bytes and overwrites (C09_device_write_conserved: queued' = clipTo (kept ++ new),
                    # kept = what the write left of the queue): the only loss there may be is of the *oldest queued* bytes, exactly when
                    # the queue stands at 65536 afterwards, and by exactly as many bytes as the new ones exceed the room
                    wr = w['data'] if (w and w['ok']) else b''
                    qp = dqprev.get(di, b'')
                    rest = qp[len(wr):]
                    over = None
                    if qp.startswith(wr) and len(q) == DEV_TO_MAX:
                        room = DEV_TO_MAX - len(rest)
                        for newlen in range(room + 1, room + len(rest) + 1):
                            k = newlen - room                  # the k oldest queued bytes gave way to newlen new ones
                            if q[:len(rest) - k] == rest[k:]: over = (k, newlen); break
                    # what one pass can queue: an answer of 3 bytes to every 3 bytes read, and the text of one send statement
                    if over is not None and over[1] <= p.reads.get(fd, 0) + 4096:
                        st['C09 device output buffer overran: oldest queued bytes overwritten, nothing else lost'] += 1
                    elif w is not None and w['ok'] or len(q) == DEV_TO_MAX or len(dqprev.get(di, b'')) == DEV_TO_MAX:
                        V.append(dict(sig='C09 bytes queued for a device were lost, duplicated or reordered', at=p.i, dev=di, before=repr(dprev[di][-60:]), after=repr(s[-60:])))
            dprev[di] = s; dqprev[di] = q


def telnet_decode(state, data):
    """reference telnet filter: (state, cmd) x bytes -> kept bytes; state 0 NONE, 1 after IAC, 2 after IAC DO/DONT/WILL/WONT"""
    out = bytearray()
    for b in data:
        if state == 0:
            if b == 255: state = 1
            else: out.append(b)
        elif state == 1:
            if b == 255: out.append(b); state = 0
            elif b in (251, 252, 253, 254): state = 2
            else: state = 0
        else: state = 0
    return state, bytes(out)


def p_c09_read(tr, V, st):
    """read side (tcp device 0 and coprocess devices): what the scripts are shown is the byte stream received on the current
    connection with telnet sequences removed: after every pass the input buffer is a suffix of the decoded stream, and the
    decoder starts fresh on every connection"""
    state = {}; stream = {}; fdof = {}
    for p in tr:
        if p.teardown or p.died: break
        for di, d in p.devs.items():
            fd = d.get('fd', -1)
            if d.get('conn') != 2:
                stream.pop(di, None); state.pop(di, None); fdof[di] = None
                continue
            if fdof.get(di) != fd:
                stream[di] = b''; state[di] = 0; fdof[di] = fd
            n = p.reads.get(fd, 0)
            if n and n > 0:
                data = p.delivered.get(fd, {}).get('data', b'')[:n]
                if di == 0: state[di], kept = telnet_decode(state[di], data)
                else: kept = data
                stream[di] += kept
            frm = d.get('frm', b'')
            st['C09 device input buffers checked'] += 1
            if not stream[di].endswith(frm):
                V.append(dict(sig='C09 script input is not the decoded stream of the current connection', at=p.i, dev=di, buffer=repr(frm[-60:]), decoded_tail=repr(stream[di][-80:])))
                stream[di] = frm


def p_c04_quit(tr, V, st):
    """a client that says `quit` (no command in progress, healthy connection) receives everything that was queued for it and the
    `101 Goodbye` line before the daemon closes the connection"""
    prev = {}
    for p in tr:
        if p.teardown or p.died: break
        for fd, c0 in prev.items():
            if fd in p.clients: continue
            d = p.delivered.get(fd)
            if not d or d['rk'] != 0 or (d['rev'] & 28) or d['cap'] < 0: continue
            n = p.reads.get(fd, 0)
            data = c0['frm'] + (d['data'][:n] if n and n > 0 else b'')
            lines = data.split(b'\n')[:-1]
            if c0['pending'] != -1 or not lines: continue
            # the first line that is `quit` with no command line before it (a command would keep the client alive)
            k = next((i for i, l in enumerate(lines) if l.split(b'\0')[0].strip().lower().startswith(b'quit')), None)
            if k is None or any(re.match(rb'^\s*(on|off|cycle|reset|flash|unflash|status|temp|beacon)\b', l.strip().lower()) for l in lines[:k]): continue
            st['C04 quits checked'] += 1
            w = p.writes.get(fd, {}).get('data', b'')
            if not w.startswith(c0['to']) or b'101 Goodbye\r\n' not in w:
                V.append(dict(sig='C04 output queued for a client was discarded when it said quit', at=p.i, fd=fd, queued=len(c0['to']), written=len(w), tail=repr(w[-60:])))
        prev = {fd: c for fd, c in p.clients.items()}


def p_m_c08(world):
    import daemon

    def pred(tr, V, st):
        """marker configuration: a `foreachnode` body runs for mapped plugs only, in plug order, each once per run of the script;
        a `foreachplug` body of a ranged script for the targeted plugs only (checked by the C01 predicate)"""
        wire = marker_wire(tr, world)
        runs = collections.defaultdict(list)      # (device, kind) -> consecutive plug arguments
        for (pi, di, kind, plugs, ln) in wire:
            if kind in daemon.KIND2BASE and daemon.KIND2BASE[kind][0] in daemon.QUERY_BASE and daemon.KIND2BASE[kind][1] == 'a' and plugs != [b'*']:
                d = world.devs[di]
                st['C08 foreachnode iterations on the wire'] += 1
                for pl in plugs:
                    if d['node'].get(pl.decode('latin1')) is None:
                        V.append(dict(sig='C08 foreachnode body ran for a plug that has no node', at=pi, dev=di, line=repr(ln)))
    pred.__name__ = 'p_m_c08'
    return pred


def p_f23(tr, V, st):
    """F23: after `quit` (or EOF) the daemon switches the client's descriptor to blocking mode to flush what is queued; if the
    client does not take it, the whole daemon blocks in write().  The simulated kernel never blocks: the harness flags every
    such write (more queued than the descriptor accepts, on a descriptor made blocking)."""
    for p in tr:
        for fd, w in p.writes.items():
            if fd < 2000 and w.get('blocks'):
                V.append(dict(sig='blocking write after client quit', at=p.i, fd=fd, bytes=len(w['data'])))
                return


def p_c04_deadline(tr, V, st, timeout_us=5000000):
    """bounded time.  The harness-only identity line gives, for each queued action, its identity and the start of its deadline
    (0 = not started).  Checked against the observed clock: the start, once set, is the time of the pass in which it first shows
    and never moves; an action seen at the head of its queue in two consecutive passes has started; an action at the head has
    not outlived start + device time-out; the time-out handed to the next poll is never later than a head's deadline; and a head
    whose deadline has not started leaves no client action waiting behind it."""
    seen = {}                                   # (device, identity) -> deadline start first reported
    prevhead = {}
    for p in tr:
        if p.teardown or p.died: break
        for di, d in p.devs.items():
            D, I = d.get('queue'), d.get('ids')
            if D is None or I is None or len(D) != len(I): continue
            for (ident, ts) in I:
                k = (di, ident)
                if ts is not None:
                    if k not in seen:
                        seen[k] = ts
                        if ts != p.now:
                            V.append(dict(sig='C04 deadline of an action starts at a time other than the pass that started it', at=p.i, dev=di, start=ts, now=p.now))
                    elif seen[k] != ts:
                        V.append(dict(sig='C04 deadline start of a queued action moved', at=p.i, dev=di, was=seen[k], start=ts, now=p.now))
                        seen[k] = ts
                elif k in seen:
                    V.append(dict(sig='C04 deadline start of a queued action moved', at=p.i, dev=di, was=seen[k], start=None, now=p.now))
                    del seen[k]
            if not I:
                prevhead.pop(di, None); continue
            ident, ts = I[0]
            if ts is None:
                if prevhead.get(di) == ident:
                    V.append(dict(sig='C04 action at the head of its queue for two passes has no deadline', at=p.i, dev=di, action=list(D[0])))
                elif any(c != 0 for (_, c) in D):
                    V.append(dict(sig='C04 client action waits behind a head action without a deadline', at=p.i, dev=di, queue=[list(x) for x in D]))
            else:
                st['C04 head deadlines checked'] += 1
                if p.now >= ts + timeout_us:
                    V.append(dict(sig='C04 action outlived its deadline at the head of its device queue', at=p.i, dev=di, action=list(D[0]), started=ts, now=p.now))
                elif p.tmo is None or p.tmo > ts + timeout_us - p.now:
                    V.append(dict(sig='C04 time-out registered for poll is later than a head action deadline', at=p.i, dev=di, tmo=p.tmo, deadline_in=ts + timeout_us - p.now))
            prevhead[di] = ident


def p_c04_xpoll(tr, V, st):
    """the time-out the daemon really sleeps with (what xpoll hands to poll, every call) against the timer dev_post_poll registered in
    the pass before: none registered -> -1; registered -> never negative (a negative value is a sleep without limit: the request
    whose timer this is can then only be completed by unrelated traffic) and never longer than what is left of it, also when the
    sleep is interrupted by a caught signal and poll is called again"""
    prev = None
    for p in tr:
        if p.teardown or p.died: break
        if p.op[0] == 'P' and prev is not None and prev.op[0] == 'P':
            reg = prev.tmo
            for k, t in enumerate(p.polltmos):
                st['C04 poll calls checked against the registered timer'] += 1
                if k > 0: st['C04 poll calls repeated after EINTR'] += 1
                if reg is None:
                    if t != -1: V.append(dict(sig='C04 poll time-out without a registered timer', at=p.i, polltmo=t))
                    continue
                left = reg if k == 0 else max(0, reg - (p.hup or 0))
                if t < 0:
                    V.append(dict(sig='C04 the daemon sleeps in poll without time-out although a timer is registered', at=p.i, registered_us=reg, polltmo=t, call=k, interrupted_after_us=p.hup)); break
                if t * 1000 > left:
                    V.append(dict(sig='C04 the daemon sleeps in poll longer than the registered timer allows', at=p.i, registered_us=reg, polltmo=t, call=k, interrupted_after_us=p.hup)); break
            if p.hup is not None and len(p.polltmos) < 2:
                V.append(dict(sig='C04 interrupted poll was not repeated', at=p.i))
        prev = p


def p_c17_sends(tr, V, st):
    """what `specOK_sound` promises of the shipped specifications, seen on the wire: no send string is ever formatted without
    the plug argument its %s needs (glibc prints `(null)` then), and no conversion other than %s/%% reaches vsnprintf"""
    fd2dev = {}
    for p in tr:
        for di, d in p.devs.items():
            if d.get('fd', -1) >= 0: fd2dev[d['fd']] = di
        for fd, w in p.writes.items():
            if fd < 2000 or fd not in fd2dev or not w['data']: continue
            st['C17 device writes inspected'] += 1
            if b'(null)' in w['data'] or b'[unresolved]' in w['data']:
                V.append(dict(sig='C17 a send string was formatted without the plug argument its %s needs', at=p.i, dev=fd2dev[fd], data=repr(w['data'][:80])))


def p_m_c13(world):
    def pred(tr, V, st):
        """generated configuration: the `device` and `nodes` listings show exactly the configured map - every `304 <dev>: ... hosts=<set>`
        line names exactly the nodes mapped to plugs of that device (also when a free plug precedes a used one), and a `307`
        node list is exactly the configured nodes"""
        want = {('d%d' % i).encode(): sorted(n.encode() for n in d['node'].values() if n) for i, d in enumerate(world.devs)}
        allnodes = sorted(x for v in want.values() for x in v)
        for fd, cv in client_views(tr).items():
            items, tail = split_out(cv.cout)
            for it in items:
                if it[0] != 'line': continue
                if it[1] == 304:
                    m = re.match(rb'^(\S+): .*hosts=(\S*)', it[2])
                    if not m or m.group(1) not in want: continue
                    st['C13 device listing lines checked'] += 1
                    try: got = sorted(expand_hl(m.group(2))) if m.group(2) else []
                    except Exception: got = None
                    # `device <targets>` restricts the listing to devices that have one of the targets, but shows all their hosts
                    if got != want[m.group(1)]:
                        V.append(dict(sig="C13 the 'device' listing does not show the configured nodes of a device", fd=fd, dev=m.group(1).decode(), shown=repr(m.group(2))[:80], configured=[x.decode() for x in want[m.group(1)]]))
                elif it[1] == 306:
                    st['C13 nodes listing lines checked'] += 1
                    try: got = sorted(expand_hl(it[2].strip()))
                    except Exception: got = None
                    if got != allnodes:
                        V.append(dict(sig="C13 the 'nodes' listing is not the configured node set", fd=fd, shown=repr(it[2])[:80], configured=[x.decode() for x in allnodes]))
                elif it[1] == 307:
                    # expanded listing (exprange on): one node per line
                    if it[2].strip() not in allnodes:
                        V.append(dict(sig="C13 the expanded 'nodes' listing shows a name that is no configured node", fd=fd, shown=repr(it[2])[:80]))
    pred.__name__ = 'p_m_c13'
    return pred
