"""C18 / C17 — the configuration grammar.

Correspondence: the real lexer and grammar (flex/bison output regenerated from the working tree's parse_lex.l / parse_tab.y,
harness/u_gramdump.c, ASan+UBSan: the real conf_init() on a file, printing what the semantic actions built — the list of
specifications with their PreStmt trees, the device / node / alias lines — or the diagnostic and its file::line) against the
Lean model Pm/Grammar.lean (token level of the lexer, LL parser on token lists) + Pm/GrammarSem.lean (the checks of the
actions, in bison's order) behind the driver grdriver (GrMain.lean).  Inputs:

  derive    sentences derived from the rules of parse_tab.y by a grammar-directed generator: every production, optional parts
            present and absent, blocks nested to depth 4 (sometimes deeper), long lists, items and spec items in any order, every
            spelling of white space / comments / line ends between tokens; mostly semantically valid (so that the whole file is
            read), with small probabilities for every check an action makes (no login script, duplicate script / plug list,
            unknown specification / device, bad targets, bad numbers)
  mutate    one or two mutations of such a sentence at token level: delete / duplicate / swap / replace one token; a keyword
            where a string is expected; a missing or extra brace; `$N` outside setplugstate; numbers with signs, exponents, hex
            digits, several dots; stray bytes; unterminated strings and newlines inside strings; a comment that ends the file
            without newline; a slice of the tokens or of the bytes moved into an include file (strings and directives then
            straddle the end of the included file), include files that are missing or include themselves
  shipped   every shipped device file (etc/devices/*.dev, t/etc/*.dev) with a device and a node line per specification, as it
            is and with one token-level mutation
  lexedge   hand-picked texts for the token level: keywords glued together, prefixes of keywords, `plug name` spellings, the
            three numeric token classes and their neighbours, include directives in odd forms, blocks nested 3000 deep
  subst     a small file that uses every production, with every single token deleted, replaced by a token of every other class,
            and a token of every class inserted at every position (quick: a sample; thorough: all 7179)

Compared: every line of the dump (items completed before the end, in order, with complete statement trees and every literal),
accept / reject, the diagnostic class, and the position file::line — the model computes the line from the index of the
offending token (syntax errors) or of the last token bison had read when the action ran (errors of actions).  The token stream
itself is compared too (`lex` mode: token kind, value and scanner position of every token).

Predicates on the C side's own output (independent of the Lean model): the C18 predicate (exit 0 after serving, or exit 1/2
after a diagnostic; no signal, sanitizer report or hang), and a small recogniser of the grammar written here, run on the real
lexer's own token stream: a file the real parser refuses with "parse error" at the end of the token stream's sentence, or
accepts although its tokens are no sentence, contradicts the grammar (C17: the shipped specifications are read as written)."""
import base64, collections, glob, os, random, re, shutil, subprocess
from common import *
import lexlayer

WRAPS = ['pipe_create', 'tcp_create', 'serial_create', 'dev_add', 'dev_findbyname', 'pluglist_map', 'conf_addnodes', 'conf_add_alias',
         'conf_add_listen', 'conf_set_plug_log_level', 'conf_set_use_tcp_wrappers', 'scanner_fini', 'xregex_compile']


def build():
    gen_parser()
    srcs = ['u_gramdump.c', 'gen:parse_lex.c'] + \
        [S('powerman/%s.c' % x) for x in ('arglist', 'parse_util', 'pluglist', 'debug', 'device', 'device_pipe', 'device_serial', 'device_tcp', 'client')] + \
        [S('liblsd/%s.c' % x) for x in ('hostlist', 'list', 'cbuf', 'hash')] + \
        [S('libcommon/%s.c' % x) for x in ('error', 'xmalloc', 'hprintf', 'fdutil', 'argv', 'xpoll', 'xread', 'xregex')]
    return cc('u_gramdump', srcs, wraps=WRAPS, san=True)


_drv = None


def driver():
    global _drv
    if _drv is None:
        ok, out = lake_build(('grdriver',))
        if not ok: raise BuildError('grdriver does not build:\n' + out[-3000:])
        _drv = os.path.join(LEANBIN, 'grdriver')
    return _drv


def have_tcp_wrappers():
    try: return bool(re.search(r'^\s*#\s*define\s+HAVE_TCP_WRAPPERS\s+1', open(os.path.join(CONFIG_H_DIR, 'config.h')).read(), re.M))
    except OSError: return False


def token_names():
    """token number -> name, from the regenerated parse_tab.h"""
    t = open(os.path.join(gen_parser(), 'parse_tab.h')).read()
    return {int(n): name for name, n in re.findall(r'^\s*(TOK_\w+) = (\d+),?', t, re.M)} or \
           {int(n): name for name, n in re.findall(r'^#\s*define (TOK_\w+) (\d+)', t, re.M)}


def hx(b):
    return b.hex() if b else '-'


def unhx(s):
    return b'' if s in ('-', '~') else bytes.fromhex(s)


# ---------------------------------------------------------------- running the two sides

def run_batch(mode, paths):
    if not paths: return []
    r = subprocess.run([build(), 'batch', mode], input='\n'.join(paths) + '\n', capture_output=True, text=True, env=ASAN_ENV)
    res = []
    for l in r.stdout.split('\n'):
        m = re.match(r'R exit=(-?\d+) sig=(\d+) to=(\d) ms=(\d+) out=(\S+) err=(\S+)$', l)
        if m: res.append(dict(exit=int(m.group(1)), sig=int(m.group(2)), to=int(m.group(3)), ms=int(m.group(4)),
                              out=unhx(m.group(5)).decode('latin-1'), err=unhx(m.group(6)).decode('latin-1')))
    if len(res) != len(paths):
        raise RuntimeError('u_gramdump batch %s answered %d of %d cases: %s' % (mode, len(res), len(paths), r.stderr[-600:]))
    return res


def run_model(cases, op='P'):
    """cases: (main path, main bytes, {include path: bytes}); returns the answer lines per case"""
    if not cases: return []
    lines = ['O tcpw=%d' % (1 if have_tcp_wrappers() else 0)]
    for path, text, incs in cases:
        lines.append('C')
        for n, c in (incs or {}).items(): lines.append('F %s %s' % (hx(n.encode()), hx(c)))
        lines.append('%s %s %s' % (op, hx(path.encode()), hx(text)))
    r = subprocess.run([driver()], input='\n'.join(lines) + '\n', capture_output=True, text=True)
    outs = r.stdout.split('\n.\n')
    if outs and outs[-1] == '': outs.pop()
    if len(outs) != len(cases):
        raise RuntimeError('grdriver answered %d of %d cases: %s' % (len(outs), len(cases), r.stderr[-400:]))
    return [o.split('\n') for o in outs]


def tv_of(text):
    """_doubletotv(_strtodouble(text)) in IEEE double arithmetic, as the C code computes it"""
    try: val = float(text)
    except ValueError: return 'tv:?:?'
    if val != val or val in (float('inf'), float('-inf')) or val > 2147483647.0: return 'tv:?:?'          # refused by _strtodouble / _doubletotv
    sec = int((val * 10.0) / 10)
    usec = int((val - float(sec)) * 1000000.0)
    return 'tv:%d:%d' % (sec, usec)


def norm_lean(lines):
    out = []
    for l in lines:
        if l.startswith('#'): continue
        out.append(re.sub(r'num:([0-9.]+)', lambda m: tv_of(m.group(1)), l))
    return out


DIAG_POS = re.compile(r'^u_gramdump: (.*): ([^:]*)::(\d+)$')


def c_view(r):
    """(event lines, final) of one run of the harness; final = ('VALID',) | ('INVALID', set of classes) | ('ERR', msg, file, line) |
    ('ERR', msg) | ('OPEN', name) | ('DEAD', text)"""
    lines = r['out'].split('\n')
    if lines and lines[-1] == '': lines.pop()
    ev = [l for l in lines if l not in ('ACCEPT', 'VALID')]
    accepted = 'ACCEPT' in lines
    errl = [l for l in r['err'].split('\n') if l.strip()]
    cls = lexlayer.diag_class(dict(err=r['err'].replace('u_gramdump: ', 'u_lexdump: ')))
    if r['to'] or r['sig'] or cls.startswith(('asan:', 'ubsan:')) or r['exit'] not in (0, 1, 2): return ev, ('DEAD', 'exit=%d sig=%d to=%d %s' % (r['exit'], r['sig'], r['to'], cls))
    if r['exit'] == 0: return ev, (('VALID',) if lines and lines[-1] == 'VALID' else ('DEAD', 'exit 0 without VALID'))
    if accepted:
        k = set()
        if 'references nonexistent node' in r['err']: k.add('aliasMissing')
        if 'no nodes are defined' in r['err']: k.add('noNodes')
        return ev, ('INVALID', k)
    if not errl: return ev, ('DEAD', 'exit %d without diagnostic' % r['exit'])
    last = errl[-1]
    m = DIAG_POS.match(last)
    if m: return ev, ('ERR', m.group(1), m.group(2), int(m.group(3)))
    m = re.match(r'^u_gramdump: (.*): (No such file or directory|Is a directory|Not a directory|File name too long|Permission denied)$', last)
    if m: return ev, ('OPEN', m.group(1))
    return ev, ('ERR', re.sub(r'^u_gramdump: ', '', last))


def lean_view(lines):
    lines = norm_lean(lines)
    ev = []; final = None
    i = 0
    while i < len(lines):
        l = lines[i]
        if l == 'ACCEPT':
            nxt = lines[i + 1] if i + 1 < len(lines) else ''
            final = ('VALID',) if nxt == 'VALID' else ('INVALID', {nxt.split(' ', 1)[1]} if nxt.startswith('INVALID ') else {'?'})
            break
        if l.startswith('ERR '):
            m = re.match(r'^ERR (.*) @ (\S+):(\d+)$', l)
            if m: final = ('ERR', m.group(1), unhx(m.group(2)).decode('latin-1'), int(m.group(3)))
            elif l.startswith('ERR open '): final = ('OPEN', unhx(l[9:]).decode('latin-1'))
            else: final = ('ERR', l[4:])
            break
        ev.append(l); i += 1
    return ev, final or ('?',)


def same_final(c, l):
    if c[0] == 'INVALID' and l[0] == 'INVALID':
        # _validate_config prints every message; the model names the first: alias messages come first
        return ('aliasMissing' in c[1]) == ('aliasMissing' in l[1]) and (l[1] <= c[1] or 'aliasMissing' in l[1])
    if c == ('ERR', 'input in flex scanner failed') and l[0] == 'OPEN' and os.path.isdir(l[1] or '.'):
        return True         # fopen() of a directory succeeds, the first read fails (flex: exit 2): for the model the name is not a readable file
    return c == l


# ---------------------------------------------------------------- an independent recogniser of the grammar (token names)

SCRIPT_TOKS = {'TOK_LOGIN', 'TOK_LOGOUT', 'TOK_STATUS', 'TOK_STATUS_ALL', 'TOK_STATUS_TEMP', 'TOK_STATUS_TEMP_ALL', 'TOK_STATUS_BEACON', 'TOK_STATUS_BEACON_ALL',
               'TOK_BEACON_ON', 'TOK_BEACON_ON_RANGED', 'TOK_BEACON_OFF', 'TOK_BEACON_OFF_RANGED', 'TOK_ON', 'TOK_ON_RANGED', 'TOK_ON_ALL', 'TOK_OFF', 'TOK_OFF_RANGED',
               'TOK_OFF_ALL', 'TOK_CYCLE', 'TOK_CYCLE_RANGED', 'TOK_CYCLE_ALL', 'TOK_RESET', 'TOK_RESET_RANGED', 'TOK_RESET_ALL', 'TOK_PING'}


class NoSentence(Exception):
    def __init__(self, idx): self.idx = idx


def recognise(t):
    """t: list of token names.  Returns None if t is a sentence of parse_tab.y, else the index of the first token that cannot
    continue one (len(t): unexpected end).  Written from the rules, independently of the Lean parser (regular-expression style
    over one token of look-ahead)."""
    n = len(t)
    pos = [0]

    def peek(): return t[pos[0]] if pos[0] < n else None

    def need(name):
        if peek() != name: raise NoSentence(pos[0])
        pos[0] += 1

    def opt(name):
        if peek() == name: pos[0] += 1; return True
        return False

    def regmatch(): need('TOK_MATCHPOS'); need('TOK_NUMERIC_VAL')

    def interps(names, required):
        k = 0
        while peek() in names:
            pos[0] += 1; need('TOK_EQUALS'); need('TOK_STRING_VAL'); k += 1
        if required and k == 0: raise NoSentence(pos[0])

    def block():
        need('TOK_BEGIN'); stmt()
        while peek() != 'TOK_END': stmt()
        pos[0] += 1

    def stmt():
        p = peek()
        if p in ('TOK_EXPECT', 'TOK_SEND'): pos[0] += 1; need('TOK_STRING_VAL')
        elif p == 'TOK_DELAY': pos[0] += 1; need('TOK_NUMERIC_VAL')
        elif p == 'TOK_SETPLUGSTATE':
            pos[0] += 1
            if opt('TOK_STRING_VAL'): regmatch()
            else:
                regmatch()
                if peek() == 'TOK_MATCHPOS': regmatch()
            interps(('TOK_ON', 'TOK_OFF'), False)
        elif p == 'TOK_SETRESULT': pos[0] += 1; regmatch(); regmatch(); interps(('TOK_SUCCESS',), True)
        elif p in ('TOK_FOREACHNODE', 'TOK_FOREACHPLUG', 'TOK_IFOFF', 'TOK_IFON'): pos[0] += 1; block()
        else: raise NoSentence(pos[0])

    def spec_item():
        p = peek()
        if p in ('TOK_DEV_TIMEOUT', 'TOK_PING_PERIOD'): pos[0] += 1; need('TOK_NUMERIC_VAL')
        elif p == 'TOK_PLUG_NAME':
            pos[0] += 1; need('TOK_BEGIN'); need('TOK_STRING_VAL')
            while opt('TOK_STRING_VAL'): pass
            need('TOK_END')
        elif p == 'TOK_SCRIPT':
            pos[0] += 1
            if peek() not in SCRIPT_TOKS: raise NoSentence(pos[0])
            pos[0] += 1; block()
        else: raise NoSentence(pos[0])

    try:
        while pos[0] < n:
            p = peek()
            if p in ('TOK_LISTEN', 'TOK_PLUG_LOG_LEVEL'): pos[0] += 1; need('TOK_STRING_VAL')
            elif p == 'TOK_TCP_WRAPPERS':
                pos[0] += 1
                if not opt('TOK_YES'): opt('TOK_NO')
            elif p == 'TOK_ALIAS': pos[0] += 1; need('TOK_STRING_VAL'); need('TOK_STRING_VAL')
            elif p == 'TOK_NODE': pos[0] += 1; need('TOK_STRING_VAL'); need('TOK_STRING_VAL'); opt('TOK_STRING_VAL')
            elif p == 'TOK_DEVICE': pos[0] += 1; need('TOK_STRING_VAL'); need('TOK_STRING_VAL'); need('TOK_STRING_VAL'); opt('TOK_STRING_VAL')
            elif p == 'TOK_SPEC':
                pos[0] += 1; need('TOK_STRING_VAL'); need('TOK_BEGIN'); spec_item()
                while peek() != 'TOK_END': spec_item()
                pos[0] += 1
            else: raise NoSentence(pos[0])
    except NoSentence as e:
        return e.idx
    except RecursionError:
        return 'deep'
    return None


# ---------------------------------------------------------------- grammar-directed generator

SCRIPT_KINDS = ['login', 'logout', 'status', 'status_all', 'status_temp', 'status_temp_all', 'status_beacon', 'status_beacon_all', 'beacon_on', 'beacon_on_ranged',
                'beacon_off', 'beacon_off_ranged', 'on', 'on_ranged', 'on_all', 'off', 'off_ranged', 'off_all', 'cycle', 'cycle_ranged', 'cycle_all', 'reset',
                'reset_ranged', 'reset_all', 'ping']
KEYWORDS = ['listen', 'tcpwrappers', 'plug_log_level', 'timeout', 'pingperiod', 'specification', 'expect', 'setplugstate', 'setresult', 'foreachnode', 'foreachplug',
            'ifoff', 'ifon', 'send', 'delay', 'device', 'plug name', 'node', 'yes', 'no', 'success', 'script', 'alias'] + SCRIPT_KINDS
PUNCT = (b'{', b'}', b'=', b'$')
SAFE = b'abcdefghijklmnopqrstuvwxyzABCXYZ0123456789 .:-_/>%,'
BODIES = [b'ok', b'on %s\\r\\n', b'off %s\\n', b'login: ', b'Password:', b'([0-9]+): (on|off)', b'plug ([^ ]+) is (ON|OFF)', b'>', b'\\r\\n', b'\\n', b'status\\r\\n', b'[0-9]+ +(On|Off)',
          b'a\\"b', b'back\\\\slash', b'tab\\there', b'oct\\101\\015\\012', b'%%', b'x\\ y', b'\\e[0m', b'', b'on', b'off', b'ON', b'OFF', b'1', b'yes', b'.*', b'^[^\\n]*\\n']


def q(body):
    return b'"' + body + b'"'


KIND_INDEX = {'login': 0, 'logout': 1, 'status': 2, 'status_all': 3, 'ping': 6, 'on': 7, 'on_ranged': 8, 'on_all': 9, 'off': 10, 'off_ranged': 11, 'off_all': 12, 'cycle': 13,
              'cycle_ranged': 14, 'cycle_all': 15, 'reset': 16, 'reset_ranged': 17, 'reset_all': 18, 'status_temp': 19, 'status_temp_all': 20, 'status_beacon': 21,
              'status_beacon_all': 22, 'beacon_on': 23, 'beacon_on_ranged': 24, 'beacon_off': 25, 'beacon_off_ranged': 26}     # device_private.h, as lib/speclayer.py has them
ESC = {ord('a'): 7, ord('b'): 8, ord('e'): 27, ord('f'): 12, ord('n'): 10, ord('r'): 13, ord('t'): 9, ord('v'): 11}


def decode(body):
    """the C string a string literal with this body stands for (the rules of start condition lex_str, written again here)"""
    out = bytearray(); i = 0
    while i < len(body):
        c = body[i]
        if c == 0x5c and i + 1 < len(body):
            d = body[i + 1:i + 4]
            if len(d) == 3 and d.isdigit():
                k = 0
                while k < 3 and d[k:k + 1] in b'01234567': k += 1
                out.append(int(d[:k] or b'0', 8) & 0xff); i += 4
            else: out.append(ESC.get(body[i + 1], body[i + 1])); i += 2
        else: out.append(c); i += 1
    return bytes(out).split(b'\0')[0]


def mp_int(t):
    """`int mp = _strtolong(text)`: strtol(text, &end, 0) of a numeric token, then the low 32 bits; None: _errormsg"""
    m = re.match(rb'0[xX][0-9a-fA-F]+|0[0-7]*|[1-9][0-9]*', t)
    if not m: return None
    g = m.group(0)
    v = int(g, 16) if g[:2] in (b'0x', b'0X') else int(g, 8) if g[:1] == b'0' else int(g)
    if v > 2 ** 63 - 1: return None
    v &= 0xffffffff
    return v - 2 ** 32 if v >= 2 ** 31 else v


def hs(b):
    return hx(b) if b is not None else '~'


class Gen:
    """derives one configuration file from the rules of parse_tab.y; `wild` = the probability of leaving semantic validity.
    Beside the tokens it writes down what the file *says* (`expect`: the dump lines of every item, from the derivation, with the
    string rules and number conversions written again in this file): what the real parser prints must be a prefix of it."""

    def __init__(self, R, wild=0.04, maxdepth=4, big=False):
        self.R = R; self.wild = wild; self.maxdepth = maxdepth; self.big = big
        self.specs = []; self.devs = []; self.nnode = 0; self.nodes = []; self.cov = collections.Counter()
        self.nalias = 0; self.expect = []

    def w(self): return self.R.random() < self.wild

    def body(self):
        R = self.R; k = R.random()
        if k < 0.6: return R.choice(BODIES)
        if k < 0.9: return bytes(R.choice(SAFE) for _ in range(R.randint(1, 14)))
        if k < 0.93 and self.big: return bytes(R.choice(SAFE) for _ in range(R.choice([200, 1000, 8000, 8191])))
        return R.choice(BODIES) + R.choice(BODIES)

    def num(self):
        R = self.R; k = R.random()
        if k < 0.5: return str(R.randint(0, 60)).encode()
        if k < 0.7: return ('%d.%d' % (R.randint(0, 9), R.randint(0, 999))).encode()
        if k < 0.8: return ('.%d' % R.randint(0, 99)).encode()
        if k < 0.88: return ('%d.' % R.randint(0, 99)).encode()
        if k < 0.94: return R.choice([b'007', b'0.10', b'1.1', b'2.3', b'0.7', b'0.000001', b'0.0000001', b'86400', b'2147483647', b'0', b'0.0', b'00.50'])
        if self.w(): return R.choice([b'2147483648', b'99999999999999999999', b'1' + b'0' * 308, b'9' * 400, b'4294967296.5'])
        return b'5'

    def mp(self):
        R = self.R; k = R.random()
        if k < 0.8: return str(R.randint(0, 9)).encode()
        if k < 0.9: return R.choice([b'10', b'20', b'010', b'08', b'1.7', b'3.', b'00'])
        if self.w(): return R.choice([b'.5', b'99999999999', b'4294967297', b'9223372036854775807', b'9223372036854775808', b'2147483648'])
        return b'2'

    def regmatch(self):
        m = self.mp()
        return [b'$', m], mp_int(m)

    def interps(self, names):
        out = []; txt = []
        for _ in range(self.R.choice([1, 1, 2, 2, 3, 6] + ([60] if self.big else []))):
            n = self.R.choice(names); b = self.body()
            out += [n, b'=', q(b)]; txt.append('%s=%s' % (n.decode(), hx(decode(b))))
        return out, ','.join(txt)

    def stmt(self, depth):
        """(tokens, dump text of the statement)"""
        R = self.R; k = R.random()
        deep = depth < self.maxdepth
        if k < 0.22: self.cov['stmt: expect'] += 1; b = self.body(); return [b'expect', q(b)], ' expect:' + hx(decode(b))
        if k < 0.44 or (k >= 0.78 and not deep): self.cov['stmt: send'] += 1; b = self.body(); return [b'send', q(b)], ' send:' + hx(decode(b))
        if k < 0.52: self.cov['stmt: delay'] += 1; n = self.num(); return [b'delay', n], ' delay:' + tv_of(n.decode())
        if k < 0.70:
            form = R.choice(['str', 'mp mp', 'mp']); withi = R.random() < 0.6
            self.cov['stmt: setplugstate %s%s' % (form, ' interps' if withi else '')] += 1
            plug = None; a = -1
            if form == 'str':
                plug = R.choice([b'1', b'2', b'a1', b'plug7']); t2, b_ = self.regmatch(); t = [q(plug)] + t2
            elif form == 'mp mp':
                t1, a = self.regmatch(); t2, b_ = self.regmatch(); t = t1 + t2
            else: t, b_ = self.regmatch()
            it, itxt = self.interps([b'on', b'off']) if withi else ([], '~')
            return [b'setplugstate'] + t + it, ' sps:%s:%s:%s:%s' % (hs(plug), a, b_, itxt)
        if k < 0.78:
            self.cov['stmt: setresult'] += 1
            t1, a = self.regmatch(); t2, b_ = self.regmatch(); it, itxt = self.interps([b'success'])
            return [b'setresult'] + t1 + t2 + it, ' srs:%s:%s:%s' % (a, b_, itxt)
        kw = R.choice([b'foreachnode', b'foreachplug', b'ifoff', b'ifon'])
        self.cov['stmt: %s (depth %d)' % (kw.decode(), depth + 1)] += 1
        t, txt = self.block(depth + 1)
        return [kw] + t, ' %s{%s }' % ({b'foreachnode': 'fn', b'foreachplug': 'fp', b'ifoff': 'ioff', b'ifon': 'ion'}[kw], txt)

    def block(self, depth):
        n = self.R.choice([1, 1, 2, 2, 3, 4, 6] + ([150] if self.big and depth == 0 else []))
        out = [b'{']; txt = ''
        for _ in range(n):
            t, x = self.stmt(depth); out += t; txt += x
        return out + [b'}'], txt

    def spec(self):
        R = self.R
        name = b's%d' % len(self.specs) if not (self.specs and R.random() < 0.03) else self.specs[0]['name']
        items = []
        kinds = R.sample(SCRIPT_KINDS[1:], R.choice([0, 1, 2, 3, 5, 8] + ([24] if self.big else [])))
        if not (self.w() and R.random() < 0.5): kinds.insert(R.randint(0, len(kinds)), 'login')
        if self.w() and kinds: kinds.insert(R.randint(0, len(kinds)), R.choice(kinds)); self.cov['wild: duplicate script'] += 1
        for kd in kinds:
            t, txt = self.block(0)
            items.append(([b'script', kd.encode()] + t, ('S', KIND_INDEX[kd], txt)))
        plugs = None
        if R.random() < 0.5:
            plugs = [b'%d' % (i + 1) for i in range(R.choice([1, 2, 4, 8] + ([300] if self.big else [])))]
            items.append(([R.choice([b'plug name', b'plug name', b'plug  name', b'plug\tname', b'plug \t name']), b'{'] + [q(p) for p in plugs] + [b'}'], ('P', plugs)))
            if self.w(): items.append(([b'plug name', b'{', q(b'x'), b'}'], ('P', [b'x']))); self.cov['wild: duplicate plug list'] += 1
        for _ in range(R.choice([0, 1, 1, 1, 2])): n = self.num(); items.append(([b'timeout', n], ('T', n)))
        for _ in range(R.choice([0, 0, 1, 2])): n = self.num(); items.append(([b'pingperiod', n], ('G', n)))
        R.shuffle(items)
        if not items: items = [([b'timeout', b'1'], ('T', b'1'))]
        self.cov['spec with %s' % ('plug list' if plugs else 'free plugs')] += 1
        self.specs.append(dict(name=name, plugs=plugs))
        tmo = ping = 'tv:0:0'; scripts = {}
        for _, e in items:
            if e[0] == 'T': tmo = tv_of(e[1].decode())
            elif e[0] == 'G': ping = tv_of(e[1].decode())
            elif e[0] == 'S': scripts[e[1]] = e[2]
        exp = ['SPEC %s tmo=%s ping=%s plugs=%s' % (hx(name), tmo, ping, ','.join(hx(p) for p in plugs) if plugs else '~')] + \
              ['S %d%s' % (k, scripts[k]) for k in sorted(scripts)] + ['ENDSPEC']
        # what the actions must refuse: a conversion that fails ('?' / None in the text), a script or plug list given twice, no login script
        nk = [e[1] for _, e in items if e[0] == 'S']
        why = 'a number or $N that cannot be converted' if any('?' in l or 'None' in l for l in exp) else 'script given twice' if len(set(nk)) != len(nk) else \
              'plug list given twice' if sum(1 for _, e in items if e[0] == 'P') > 1 else 'no login script' if 0 not in nk else None
        if why: exp = ['!REFUSED specification: ' + why]
        return [b'specification', q(name), b'{'] + [t for it, _ in items for t in it] + [b'}'], exp

    def device(self):
        R = self.R
        if not self.specs or self.w(): sp = dict(name=b'nosuch', plugs=None)
        else: sp = R.choice(self.specs)
        name = b'd%d' % len(self.devs)
        k = R.random()
        if k < 0.6: tgt = [R.choice([b'/bin/true |&', b'conman -j x |&', b'|&', b'ssh a b |& c'])]; kind = 'pipe'
        elif k < 0.75: tgt = [b'/dev/null'] + ([R.choice([b'9600,8n1', b'19200,7e2', b''])] if R.random() < 0.5 else []); kind = 'serial'
        elif k < 0.95: tgt = [R.choice([b'localhost:10101', b'h1:1', b'10.0.0.1:65535', b'h:4294967297', b'x:023', b'a:1:2', b':7', b'h: 5'])] + ([R.choice([b'quiet', b'telnet', b''])] if R.random() < 0.4 else []); kind = 'tcp'
        else: tgt = [R.choice([b'/nonexistent/tty', b'noport', b'h:0', b'h:65536', b'h:abc', b'h:', b'', b'h:99999999999999999999', b'h:-1'])]; kind = '?'
        if k < 0.6 and R.random() < 0.3: tgt.append(b'flags')
        self.cov['device: %d strings' % (2 + len(tgt))] += 1
        self.devs.append(dict(name=name, spec=sp, free=list(sp['plugs']) if sp['plugs'] else None))
        host = tgt[0]; port = None
        if kind == 'tcp': host, _, port = tgt[0].partition(b':')
        exp = ['DEVICE %s %s %s %s %s %s' % (hx(name), hx(sp['name']), kind, hx(host), hs(port), hs(tgt[1] if len(tgt) > 1 else None))]
        if sp['name'] == b'nosuch' or kind == '?': exp = ['!REFUSED device: ' + ('unknown specification' if sp['name'] == b'nosuch' else 'unusable target')]
        return [b'device', q(name), q(sp['name'])] + [q(t) for t in tgt], exp

    def node(self):
        R = self.R
        if not self.devs or self.w(): d = dict(name=b'nodev', spec=None, free=None)
        else:
            ok = [x for x in self.devs if x['free'] is None or x['free']]
            if not ok and not self.w(): return self.misc()
            d = R.choice(ok) if ok and not self.w() else R.choice(self.devs)
        k = R.choice([1, 1, 1, 2, 3])
        if d['free'] is not None: k = min(k, len(d['free']))
        if k == 0: k = 1
        base = self.nnode; self.nnode += k
        names = [b'n%d' % (base + i) for i in range(k)]
        if self.w() and self.nodes: names[0] = R.choice(self.nodes)
        nodestr = names[0] if k == 1 else (b'n[%d-%d]' % (base, base + k - 1) if R.random() < 0.6 else b','.join(names))
        out = [b'node', q(nodestr), q(d['name'])]; pl = None
        if d['free'] is not None:
            take = d['free'][:k]; d['free'] = d['free'][k:]
            if R.random() < 0.5: pl = b','.join(take)
        elif R.random() < 0.3: pl = b','.join(b'p%d' % (base + i) for i in range(k))
        if pl is not None: out.append(q(pl))
        self.nodes += names
        self.cov['node: %d strings' % (len(out) - 1)] += 1
        return out, (['NODE %s %s %s' % (hx(nodestr), hx(d['name']), hs(pl))] if d['name'] != b'nodev' else ['!REFUSED node: unknown device'])

    def alias(self):
        R = self.R; self.nalias += 1
        hosts = b','.join(R.sample(self.nodes, min(len(self.nodes), R.randint(1, 3)))) if self.nodes and not self.w() else b'ghost'
        self.cov['alias'] += 1
        name = b'a%d' % (self.nalias if not self.w() else 1)
        return [b'alias', q(name), q(hosts)], ['ALIAS %s %s' % (hx(name), hx(hosts))]

    def misc(self):
        R = self.R; k = R.random()
        if k < 0.4: self.cov['listen'] += 1; v = R.choice([b'127.0.0.1:10101', b'0.0.0.0:1', b'']); return [b'listen', q(v)], ['LISTEN ' + hx(v)]
        if k < 0.7:
            self.cov['plug_log_level'] += 1
            v = R.choice([b'debug', b'info', b'err', b'notice', b'warning', b'none'] + ([b'bogus', b'', b'DEBUG'] if self.w() else []))
            return [b'plug_log_level', q(v)], (['LOGLEVEL ' + hx(v)] if v in (b'debug', b'info', b'err', b'notice', b'warning', b'none') else ['!REFUSED plug_log_level: no syslog priority name'])
        v = R.choice([[b'no'], [b'no'], [b'no'], [b'yes'], []]) if not have_tcp_wrappers() else R.choice([[b'no'], [b'yes'], []])
        self.cov['tcpwrappers %s' % (v[0].decode() if v else '(bare)')] += 1
        return [b'tcpwrappers'] + v, (['TCPW %d' % (0 if v == [b'no'] else 1)] if v == [b'no'] or have_tcp_wrappers() else ['!REFUSED tcpwrappers: not built with tcp_wrapper support'])

    def config(self):
        R = self.R
        items = []
        for _ in range(R.choice([1, 1, 2, 3])): items.append(self.spec())
        for _ in range(R.choice([1, 1, 2, 3])): items.append(self.device())
        for _ in range(R.choice([1, 2, 3, 5])): items.append(self.node())
        for _ in range(R.choice([0, 0, 1, 2])): items.append(self.alias())
        for _ in range(R.choice([0, 0, 1, 2])): items.insert(R.randint(0, len(items)), self.misc())
        k = R.random()
        if k < 0.06: R.shuffle(items); self.cov['items in random order'] += 1
        elif k < 0.10: items = []; self.cov['empty file'] += 1
        elif k < 0.2 and len(items) > 1:
            i = R.randrange(len(items)); items.insert(R.randrange(len(items)), items.pop(i))
        self.expect = [l for _, e in items for l in e]
        return [t for it, _ in items for t in it]


WS = [b' ', b' ', b' ', b'\n', b'\n', b'\t', b'  ', b'\r\n', b' \n ', b'\n\n', b' # note\n', b'\n# a comment line { " $ \n', b'\t\t', b' \r ']


def sep(R, a, b, style):
    tight = a in PUNCT or b in PUNCT or a[:1] == b'"' or b[:1] == b'"'
    if a == b'$' and R.random() < 0.9: return b''
    if style == 'lines':
        if b in (b'}',) or a in (b'{', b'}') or b in (b'specification', b'device', b'node', b'alias', b'script', b'send', b'expect', b'delay', b'setplugstate', b'setresult', b'timeout'): return b'\n' + b'\t' * R.randint(0, 2)
        return b' '
    if tight and R.random() < (0.5 if style == 'tight' else 0.08): return b''
    return R.choice(WS) if style != 'tight' else b' '


def render(R, toks, style=None, tail=None, lines=None):
    """the text; `lines` (a list) receives the line each token is written on"""
    style = style or R.choice(['lines', 'lines', 'mixed', 'mixed', 'tight'])
    head = R.choice([b'', b'', b'', b'# header\n', b'\n\n', b'  ', b'#\n#\n'])
    out = [head]; ln = 1 + head.count(b'\n')
    for i, t in enumerate(toks):
        out.append(t)
        if lines is not None: lines.append(ln)
        ln += t.count(b'\n')
        if i + 1 < len(toks):
            x = sep(R, t, toks[i + 1], style); out.append(x); ln += x.count(b'\n')
    out.append(tail if tail is not None else R.choice([b'\n', b'\n', b'\n', b'', b' ', b'\n\n', b' # the end\n', b'\t\n']))
    if lines is not None: lines.append(ln + out[-1].count(b'\n'))
    return b''.join(out)


KW_TOK = {'listen': 'TOK_LISTEN', 'tcpwrappers': 'TOK_TCP_WRAPPERS', 'plug_log_level': 'TOK_PLUG_LOG_LEVEL', 'timeout': 'TOK_DEV_TIMEOUT', 'pingperiod': 'TOK_PING_PERIOD',
          'specification': 'TOK_SPEC', 'expect': 'TOK_EXPECT', 'setplugstate': 'TOK_SETPLUGSTATE', 'setresult': 'TOK_SETRESULT', 'foreachnode': 'TOK_FOREACHNODE',
          'foreachplug': 'TOK_FOREACHPLUG', 'ifoff': 'TOK_IFOFF', 'ifon': 'TOK_IFON', 'send': 'TOK_SEND', 'delay': 'TOK_DELAY', 'device': 'TOK_DEVICE', 'node': 'TOK_NODE',
          'yes': 'TOK_YES', 'no': 'TOK_NO', 'success': 'TOK_SUCCESS', 'script': 'TOK_SCRIPT', 'alias': 'TOK_ALIAS', '{': 'TOK_BEGIN', '}': 'TOK_END', '=': 'TOK_EQUALS', '$': 'TOK_MATCHPOS'}
KW_TOK.update({k: 'TOK_' + k.upper() for k in SCRIPT_KINDS})


def written_tokens(toks, lines, path):
    """the token stream a derived file was written with, in the format of the `lex` mode (token name, file, line, value)"""
    out = []; f = hx(path.encode())
    for t, ln in zip(toks, lines):
        if t[:1] == b'"': out.append('T TOK_STRING_VAL %s %d %s' % (f, ln, hx(decode(t[1:-1]))))
        elif t[:1].isdigit() or t[:1] == b'.': out.append('T TOK_NUMERIC_VAL %s %d %s' % (f, ln, hx(t)))
        elif t[:4] == b'plug' and t[-4:] == b'name': out.append('T TOK_PLUG_NAME %s %d ~' % (f, ln))
        else: out.append('T %s %s %d ~' % (KW_TOK[t.decode()], f, ln))
    out.append('EOF %s %d' % (f, lines[-1]))
    return out


# ---------------------------------------------------------------- mutations (token level)

ODDNUM = [b'-1', b'+5', b'1e5', b'1E-3', b'0x10', b'0X1f', b'1.2.3', b'1..2', b'.', b'5.', b'..5', b'1.e', b'0b1', b'1_000', b'\xd9\xa1', b'1,5', b'-.5', b'+0', b'1e', b'e1', b'0x', b'00x1']
STRAY = [b'\x00', b'\x80', b'\xff', b'@', b';', b'%', b'\\', b"'", b'.', b'(', b')', b'[', b',', b'\x0b', b'\x0c', b'\x7f', b'\xc3\xa9', b'!', b'*', b'_', b'-', b'+', b'~', b'`', b'<', b'|', b'&']
GLUE = [b'onoff', b'yesno', b'nodevice', b'online', b'offline', b'on_', b'status_', b'status_al', b'status_allx', b'plug', b'plugname', b'plug_name', b'name', b'script2', b'login1', b'timeoutx',
        b'ifonifoff', b'aliasalias', b'successes', b'notice', b'nod', b'devices', b'Send', b'SEND', b'specifications', b'includes', b'pingperiods', b'resetall', b'reset_all_',
        b'cycle_range', b'beacon', b'beacon_', b'status_temp_', b'tcpwrappersyes', b'listening', b'expected', b'delayed', b'sender', b'0on', b'on0', b'1.5on', b'plug name_', b'plug\nname', b'plug\rname']


def mutate(R, toks, incs, scratch_dir, tag):
    """one mutation; returns (toks, name).  A token may afterwards be any byte string (it is written as it is)."""
    toks = list(toks)
    if not toks: return [R.choice(KEYWORDS).encode()], 'append to an empty file'
    i = R.randrange(len(toks)); k = R.random()
    strs = [j for j, t in enumerate(toks) if t[:1] == b'"']
    nums = [j for j, t in enumerate(toks) if t[:1].isdigit() or (t[:1] == b'.' and len(t) > 1)]
    if k < 0.10: del toks[i]; return toks, 'delete a token'
    if k < 0.17: toks.insert(i, toks[i]); return toks, 'duplicate a token'
    if k < 0.24:
        j = i + 1 if (R.random() < 0.5 and i + 1 < len(toks)) else R.randrange(len(toks)); toks[i], toks[j] = toks[j], toks[i]; return toks, 'swap two tokens'
    if k < 0.32:
        toks[i] = R.choice([x.encode() for x in KEYWORDS] + [b'{', b'}', b'=', b'$', q(b'x'), b'1', b'include']); return toks, 'replace a token'
    if k < 0.36 and strs:
        toks[R.choice(strs)] = R.choice(KEYWORDS).encode(); return toks, 'a keyword where a string stands'
    if k < 0.39 and (strs or nums):
        if nums and (not strs or R.random() < 0.6): toks[R.choice(nums)] = q(R.choice([b'6', b'1.5', b'x'])); return toks, 'a string where a number stands'
        toks[R.choice(strs)] = R.choice([b'7', b'0.5', b'.5']); return toks, 'a number where a string stands'
    if k < 0.46:
        br = [j for j, t in enumerate(toks) if t in (b'{', b'}')]
        if br and R.random() < 0.75: del toks[R.choice(br)]; return toks, 'a missing brace'
        toks.insert(i, R.choice([b'{', b'}'])); return toks, 'an extra brace'
    if k < 0.52:
        if strs and R.random() < 0.5: j = R.choice(strs); toks[j:j + 1] = [b'$', b'1']; return toks, '$N where a string stands'
        toks[i:i] = [b'$', R.choice([b'1', b'0', b'12'])]; return toks, '$N inserted'
    if k < 0.60:
        if nums: toks[R.choice(nums)] = R.choice(ODDNUM); return toks, 'a number with sign / exponent / hex / dots'
        toks.insert(i, R.choice(ODDNUM)); return toks, 'an odd number inserted'
    if k < 0.68:
        toks.insert(i, R.choice(STRAY)); return toks, 'a stray byte'
    if k < 0.74 and strs:
        j = R.choice(strs); q_ = R.random()
        if q_ < 0.35: toks[j] = toks[j][:-1]; return toks, 'an unterminated string'
        if q_ < 0.6: toks[j] = toks[j][:1] + b'line1\nline2' + toks[j][1:]; return toks, 'a newline inside a string'
        if q_ < 0.8: toks[j] = toks[j][:-1] + b'\\\n' + b'"'; return toks, 'an escaped newline inside a string'
        toks[j] = b'"' + b's' * R.choice([8190, 8191, 8192, 9000]) + b'"'; return toks, 'a string at the capacity of string_buf'
    if k < 0.79:
        toks.insert(i, R.choice(GLUE)); return toks, 'glued / partial keywords'
    if k < 0.84:
        toks.append(R.choice([b'# no newline at the end', b'#', b'# x\n#y', b'"', b'"abc', b'include', b'\\']) + b'<EOF>'); return toks, 'the file ends inside a comment / string / directive'
    if k < 0.92 and scratch_dir:
        a = R.randrange(len(toks) + 1); b = R.randint(a, min(len(toks), a + R.choice([0, 1, 3, 10, 40])))
        name = os.path.join(scratch_dir, '%s.inc%d' % (tag, len(incs)))
        sub = toks[a:b]
        body = render(R, sub, tail=R.choice([b'\n', b'', b' ', b'\n\n'])) if sub else R.choice([b'', b'\n', b'# nothing\n'])
        q_ = R.random()
        if q_ < 0.08: name += '.missing'
        elif q_ < 0.14: incs[name] = b'include "' + name.encode() + b'"\n'          # a file that includes itself
        else: incs[name] = body
        form = R.choice([b'include "%s"', b'include "%s"', b'include\t"%s"', b'include   "%s"', b'include\n"%s"', b'include <%s>', b'include"%s"'])
        toks[a:b] = [form % name.encode()]
        return toks, 'a slice moved into an include file'
    toks.insert(i, R.choice([b'include', b'include x', b'include "', b'include ""'])); return toks, 'an include directive without a usable name'


def finish(toks):
    """the marker <EOF> makes the token the last bytes of the file (no separator, no tail)"""
    for j, t in enumerate(toks):
        if t.endswith(b'<EOF>'): return toks[:j] + [t[:-5]], True
    return toks, False


# ---------------------------------------------------------------- units

class Scratch(lexlayer.Scratch):
    def __init__(self, tag):
        lexlayer.Scratch.n += 1
        self.d = os.path.join(BUILD, 'gram', '%s-%d-%d' % (tag, os.getpid(), lexlayer.Scratch.n))
        shutil.rmtree(self.d, ignore_errors=True)
        os.makedirs(self.d)


def c18_predicate(r):
    ok_out = r['out'].endswith('VALID\n')
    rr = dict(r, out=('OK ' + r['out']) if ok_out else r['out'], err=r['err'].replace('u_gramdump: ', 'u_lexdump: '))
    return lexlayer.c18_predicate(rr, None, '', 'file')


def lex_view_c(r, names):
    out = []
    for l in r['out'].split('\n'):
        f = l.split(' ')
        if f[0] == 'T' and len(f) == 5: out.append('T %s %s %s %s' % (names.get(int(f[1]), f[1]), f[2], f[3], f[4]))
        elif f[0] == 'EOF': out.append(l)
    return out


def judge(cases, how, cres, lres, mres, mlex, names, st, diffs, V, layer, seed):
    """compare one batch; cases: (path, text, incs)"""
    for i, ((path, text, incs), r, rl, m, ml) in enumerate(zip(cases, cres, lres, mres, mlex)):
        rp = dict(layer=layer, seed=seed, index=i, how=how[i], text=base64.b64encode(text).decode() if len(text) < 150000 else None,
                  incs={os.path.basename(n): base64.b64encode(c).decode() for n, c in (incs or {}).items()}, path=os.path.basename(path))
        s = c18_predicate(r)
        if s: V.append(dict(sig=s, how=how[i], detail=lexlayer.brief(r['err'] or r['out'], 700), replay=rp))
        cev, cfin = c_view(r)
        lev, lfin = lean_view(m)
        # the token streams
        ctoks = lex_view_c(rl, names)
        ltoks = [l for l in ml if l.startswith(('T ', 'EOF '))]
        lend = [l for l in ml if l.startswith('END ')]
        tok_same = True
        if lend and 'unmodelled' in lend[0]:
            st['outside the model: ' + lend[0][15:]] += 1
            continue
        if rl['exit'] == 0 and not lend:
            if ctoks != ltoks:
                tok_same = False
                k = next((j for j in range(min(len(ctoks), len(ltoks))) if ctoks[j] != ltoks[j]), min(len(ctoks), len(ltoks)))
                diffs.append(dict(kind='token-stream-differs', how=how[i], at=k, c=ctoks[k:k + 3], lean=ltoks[k:k + 3], replay=rp))
        elif (rl['exit'] == 0) != (not lend):
            tok_same = False
            diffs.append(dict(kind='lexer-end-differs', how=how[i], c='exit=%d %s' % (rl['exit'], rl['err'][-200:]), lean=(lend or ['EOF'])[0], replay=rp))
        else:
            # both died in the lexer: the tokens delivered before must agree
            if ctoks != ltoks[:len(ctoks)] or len(ltoks) != len(ctoks):
                tok_same = False
                diffs.append(dict(kind='token-stream-differs', how=how[i], c=ctoks[-3:], lean=ltoks[-3:], replay=rp))
        st['token streams compared'] += 1
        st['tokens'] += len(ctoks)
        if lfin[0] == 'ERR' and 'unmodelled' in lfin[1]:
            st['outside the model: ' + lfin[1]] += 1
            continue
        # the grammar, judged on the real lexer's own tokens by the recogniser written in this file
        if rl['exit'] == 0 and cfin[0] != 'DEAD':
            tn = [l.split(' ')[1] for l in ctoks if l.startswith('T ')]
            bad = recognise(tn)
            if bad == 'deep': st['recogniser: nesting too deep for the Python stack'] += 1; bad = None; cfin_ok = False
            else: cfin_ok = True
            if not cfin_ok: pass
            elif bad is None and cfin[0] == 'ERR' and cfin[1] == 'parse error':
                V.append(dict(sig='C18 a file whose tokens are a sentence of the configuration grammar is refused with a parse error', how=how[i], diagnostic='%s: %s::%s' % cfin[1:], replay=rp))
            if cfin_ok and bad is not None and cfin[0] in ('VALID', 'INVALID'):
                V.append(dict(sig='C18 a file whose tokens are no sentence of the configuration grammar is accepted', how=how[i], first_bad_token=bad, tokens=tn[max(0, bad - 4):bad + 2], replay=rp))
            if cfin_ok and bad is not None and cfin[0] == 'ERR' and cfin[1] == 'parse error' and len(cfin) == 4:
                # the offending token's line, from the real lexer's own positions
                pl = [l.split(' ') for l in ctoks]
                want = (pl[bad][2], int(pl[bad][3])) if bad < len(tn) else (pl[-1][1], int(pl[-1][2]))
                if (hx(cfin[2].encode('latin-1')), cfin[3]) != want:
                    V.append(dict(sig='C18 the parse error is not reported at the first token that cannot continue a sentence', how=how[i], reported='%s::%d' % (cfin[2], cfin[3]),
                                  offending_token=bad, its_position='%s::%d' % (unhx(want[0]).decode('latin-1'), want[1]), replay=rp))
        st['outcome: ' + (cfin[0] if cfin[0] != 'ERR' else 'refused: ' + re.sub(r'\d+', 'N', cfin[1])[:60])] += 1
        if cev != lev:
            k = next((j for j in range(min(len(cev), len(lev))) if cev[j] != lev[j]), min(len(cev), len(lev)))
            diffs.append(dict(kind='dump-differs', how=how[i], at=k, c=cev[k:k + 2], lean=lev[k:k + 2], replay=rp))
        elif not same_final(cfin, lfin):
            diffs.append(dict(kind='outcome-differs', how=how[i], c=str(cfin)[:300], lean=str(lfin)[:300], tokens_agree=tok_same, replay=rp))
        else: st['items compared'] += len(cev)


def run_cases(cases, how, st, diffs, V, layer, seed, keep_lex=False):
    names = token_names()
    paths = [c[0] for c in cases]
    cres = run_batch('parse', paths)
    lres = run_batch('lex', paths)
    mres = run_model(cases, 'P')
    mlex = run_model(cases, 'L')
    judge(cases, how, cres, lres, mres, mlex, names, st, diffs, V, layer, seed)
    if keep_lex:
        for r, l in zip(cres, lres): r['lex'] = l
    return cres


def write_case(sc, name, text, incs):
    p = sc.write(name, text)
    for n, c in (incs or {}).items():
        with open(n, 'wb') as f: f.write(c)
    return p


def derive_unit(args):
    seed, n, layer = args
    R = random.Random(seed)
    sc = Scratch('d')
    cases = []; how = []; st = collections.Counter(); diffs = []; V = []; seen = set(); expects = []; written = []
    for i in range(n):
        g = Gen(R, wild=R.choice([0.0, 0.0, 0.03, 0.1]), maxdepth=R.choice([1, 2, 4, 4, 4, 7]), big=(R.random() < 0.06))
        toks = g.config()
        lines = []
        text = render(R, toks, lines=lines)
        for k_, v_ in g.cov.items(): st['derived: ' + k_] += v_
        cases.append((write_case(sc, 'g%d.conf' % i, text, None), text, None)); how.append(['derived from the grammar'])
        expects.append(g.expect); written.append(written_tokens(toks, lines, cases[-1][0]))
        seen.add(text)
    cres = run_cases(cases, how, st, diffs, V, layer, seed, keep_lex=True)
    names = token_names()
    # what the real lexer delivered and what the real parser built, against what the derivation says (independent of the Lean model)
    for i, ((path, text, _), r, exp) in enumerate(zip(cases, cres, expects)):
        cev, cfin = c_view(r)
        if cfin[0] == 'DEAD': continue
        rp = dict(layer=layer, seed=seed, index=i, how=how[i], text=base64.b64encode(text).decode() if len(text) < 150000 else None, incs={}, path=os.path.basename(path))
        ctoks = lex_view_c(r['lex'], names)
        if r['lex']['exit'] == 0 and ctoks != written[i]:
            k = next((j for j in range(min(len(ctoks), len(written[i]))) if ctoks[j] != written[i][j]), min(len(ctoks), len(written[i])))
            V.append(dict(sig='C18 the lexer does not deliver the tokens a derived configuration was written with', at_token=k, delivered=[re.sub(r' [0-9a-f]{40,} ', ' <file> ', x) for x in ctoks[k:k + 2]],
                          written=[re.sub(r' [0-9a-f]{40,} ', ' <file> ', x) for x in written[i][k:k + 2]], replay=rp))
            continue
        k = next((j for j in range(min(len(cev), len(exp))) if cev[j] != exp[j]), None)
        if k is None and len(cev) > len(exp): k = len(exp)
        if k is not None and k < len(exp) and exp[k].startswith('!REFUSED'):
            V.append(dict(sig='C18 an item of a derived configuration that the actions must refuse was built', must_refuse=exp[k][9:], built=cev[k][:300], replay=rp))
        elif k is not None:
            V.append(dict(sig='C18 what the parser built from a derived configuration is not what the file says', at_line=k, built=cev[k][:400] if k < len(cev) else None, file_says=exp[k][:400] if k < len(exp) else None, replay=rp))
        elif cfin[0] == 'VALID' and len(cev) != len(exp):
            V.append(dict(sig='C18 a derived configuration is accepted but not all of its items were built', built=len(cev), file_says=len(exp), replay=rp))
        else: st['derived configurations whose dump is a prefix of the derivation'] += 1
    sc.close()
    sample = [dict(text=c[1][:160].decode('latin-1'), result=(r['out'][-40:] or r['err'][-80:])) for c, r in list(zip(cases, cres))[:2]]
    return dict(n=len(cases), distinct=len(seen), diffs=diffs, violations=V, stats=st, sample=sample)


def mutate_unit(args):
    seed, n, layer = args
    R = random.Random(seed)
    sc = Scratch('m')
    cases = []; how = []; st = collections.Counter(); diffs = []; V = []; seen = set()
    for i in range(n):
        g = Gen(R, wild=0.0, maxdepth=R.choice([2, 4]))
        toks = g.config()
        incs = {}; hw = []
        for _ in range(R.choice([1, 1, 1, 2])):
            toks, h = mutate(R, toks, incs, sc.d, 'm%d' % i); hw.append(h)
        toks, atend = finish(toks)
        text = render(R, toks, tail=b'' if atend else None)
        if R.random() < 0.1:
            # a slice of the *bytes* goes into an include file: tokens, string literals, comments and directives may straddle its end
            a = R.randrange(len(text) + 1); b = R.randint(a, min(len(text), a + R.choice([1, 5, 30, 200])))
            name = os.path.join(sc.d, 'm%d.binc' % i)
            incs[name] = text[a:b]
            text = text[:a] + R.choice([b' include "%s" ', b'\ninclude "%s"\n', b' include "%s"', b'include "%s" ']) % name.encode() + text[b:]
            hw.append('a slice of bytes moved into an include file')
        for h in hw: st['mutation: ' + h] += 1
        cases.append((write_case(sc, 'm%d.conf' % i, text, incs), text, incs)); how.append(hw)
        seen.add(text)
    cres = run_cases(cases, how, st, diffs, V, layer, seed)
    sc.close()
    sample = [dict(how=h, text=c[1][:120].decode('latin-1'), result=(r['err'][-80:] or r['out'][-40:])) for c, h, r in list(zip(cases, how, cres))[:3]]
    return dict(n=len(cases), distinct=len(seen), diffs=diffs, violations=V, stats=st, sample=sample)


def shipped_unit(args):
    seed, n, layer = args
    R = random.Random(seed)
    sc = Scratch('s')
    cases = []; how = []; st = collections.Counter(); diffs = []; V = []; seen = set()
    files = sorted(glob.glob(os.path.join(REPO, 'etc', 'devices', '*.dev')) + glob.glob(os.path.join(REPO, 't', 'etc', '*.dev')))
    for fi, p in enumerate(files):
        t = open(p, 'rb').read()
        specs = re.findall(rb'^\s*specification\s+"([^"]+)"', t, re.M)
        tail = b''.join(b'device "d%d" "%s" "/bin/true |&"\nnode "n%d" "d%d"\n' % (j, s_, j, j) for j, s_ in enumerate(specs))
        text = t + b'\n' + tail
        cases.append((write_case(sc, 'f%d.conf' % fi, text, None), text, None)); how.append(['shipped file ' + os.path.basename(p)])
        st['shipped files'] += 1; st['shipped specifications'] += len(specs)
        for k in range(n):
            toks = lexlayer.TOKEN_RE.findall(text)
            idx = [j for j, x in enumerate(toks) if not x.isspace() and not x.startswith(b'#')]
            if not idx: continue
            j = R.choice(idx); q_ = R.random()
            if q_ < 0.3: del toks[j]; h = 'delete a token'
            elif q_ < 0.5: toks.insert(j, toks[j] + b' '); h = 'duplicate a token'
            elif q_ < 0.7:
                j2 = R.choice(idx); toks[j], toks[j2] = toks[j2], toks[j]; h = 'swap two tokens'
            elif q_ < 0.85: toks[j] = R.choice([x.encode() for x in KEYWORDS] + [b'{', b'}', b'=', b'$', b'"x"', b'1']); h = 'replace a token'
            else: toks.insert(j, R.choice(STRAY + ODDNUM) + b' '); h = 'a stray byte / an odd number'
            mt = b''.join(toks)
            cases.append((write_case(sc, 'f%d_%d.conf' % (fi, k), mt, None), mt, None)); how.append(['shipped file ' + os.path.basename(p), h])
            st['mutation of a shipped file: ' + h] += 1
        seen.add(p)
    cres = run_cases(cases, how, st, diffs, V, layer, seed)
    # every shipped file, unchanged, is accepted
    for (path, text, _), h, r in zip(cases, how, cres):
        if len(h) == 1 and not r['out'].endswith('VALID\n'):
            V.append(dict(sig='C17 a shipped device file is not accepted by the real parser', file=h[0], detail=r['err'][-300:], replay=dict(layer=layer, how=h, text=base64.b64encode(text).decode(), path='f.conf', incs={})))
    sc.close()
    return dict(n=len(cases), distinct=len(cases), diffs=diffs, violations=V, stats=st, sample=[dict(file=how[0], result=cres[0]['out'][-30:])])


LEXEDGE = [b'onoff', b'yesno', b'nodevice "a" "b"', b'tcpwrappersno', b'tcpwrappersyes', b'tcpwrappers\nno', b'status_all status_allx status_al status_ status', b'on_ranged on_range on_ on', b'plug name', b'plug  \t name',
           b'plugname', b'plug\nname', b'plug', b'plug nam', b'plug namee', b'1 1. 1.5 .5 . 1..5 1.5.2 .5.5 00 1e5 0x1f -1 +1 1a a1', b'$1 $ 1 $$ $x $.5 $1.5', b'{}{ }=}= = =', b'# only a comment', b'# comment\n', b'#\n#\n#',
           b'"a" "b', b'"a\nb"', b'"a\\\nb" 7', b'"\\101\\18\\0" 1', b'""', b'"\x00x" "y\x00" 2', b'\x00', b'\xff\xfe', b'\r\n\r\n', b'\x0b\x0c', b'include', b'include ', b'include\n', b'include "', b'include ""', b'include x',
           b'includex', b'include "/nonexistent/file"', b'include\n\n"/nonexistent/file"', b'INCLUDE "x"', b'specification', b'Specification', b'script login login', b'listen listen "x"', b'alias "a" "b" "c"',
           b'node "a"', b'node "a" "b" "c" "d"', b'device "a" "b"', b'device "a" "b" "c" "d" "e"', b'setplugstate', b'expect "x"', b'{', b'}', b'=', b'success', b'yes', b'no', b'tcpwrappers yes no', b'tcpwrappers',
           b'specification "s" { }', b'specification "s" { timeout 1 }', b'specification "s" { timeout 1 timeout 2 pingperiod 3 pingperiod 4 }', b'specification "s" { script login { } }',
           b'specification "s" { script login { send "a" } script login { send "b" } }', b'specification "s" { plug name { } }', b'specification "s" { plug name { "1" } plug name { "2" } script login { send "x" } }',
           b'specification "s" { script nosuch { send "a" } }', b'specification "s" { script login { ifon { } } }', b'specification "s" { script login { foreachplug { foreachnode { ifon { ifoff { send "deep" } } } } } }',
           b'specification "s" { script login { setresult $1 $2 } }', b'specification "s" { script login { setresult $1 success="a" } }', b'specification "s" { script login { setplugstate "p" } }',
           b'specification "s" { script login { setplugstate "p" $1 $2 } }', b'specification "s" { script login { setplugstate $1 $2 $3 } }', b'specification "s" { script login { setplugstate $1 on="a" on="b" off="c" success="d" } }',
           b'specification "s" { script login { setplugstate $1 on "a" } }', b'specification "s" { script login { setplugstate $1 on= } }', b'specification "s" { script login { setplugstate $.5 } }',
           b'specification "s" { script login { setplugstate $99999999999999999999 } }', b'specification "s" { script login { delay 99999999999 } }', b'specification "s" { script login { delay 1 } timeout 1' + b'0' * 400 + b' }',
           b'specification "s" { script login { send "a" } } specification "s" { script login { send "b" } plug name { "1" } } device "d" "s" "x |&" node "n" "d"',
           b'specification "s" { script login { send "a" } } device "d" "s" "x |&" device "d" "s" "y |&" node "n" "d"', b'device "d" "s" "x |&" specification "s" { script login { send "a" } }']


def lexedge_unit(args):
    seed, n, layer = args
    R = random.Random(seed)
    sc = Scratch('e')
    cases = []; how = []; st = collections.Counter(); diffs = []; V = []
    for i, t in enumerate(LEXEDGE):
        for tail in (b'', b'\n'):
            text = t + tail
            cases.append((write_case(sc, 'e%d_%d.conf' % (i, len(tail)), text, None), text, None)); how.append(['edge text'])
    # an included file that ends in the middle of a string literal or of an include directive: flex keeps the start condition (and
    # string_buf) across the end of the file, and so does the model
    inc1 = os.path.join(sc.d, 'str.inc'); inc2 = os.path.join(sc.d, 'dir.inc'); inc3 = os.path.join(sc.d, 'cmt.inc')
    for nm, (inc, body, rest) in enumerate([(inc1, b'listen "abc', b' def" listen "x"\n'), (inc2, b'listen "a" include', b' "%s" listen "b"\n' % inc3.encode()), (inc3, b'listen "c" # no newline', b'\nlisten "d"\n')]):
        text = b'include "%s"%s' % (inc.encode(), rest)
        cases.append((write_case(sc, 'x%d.conf' % nm, text, {inc: body, inc3: b'listen "c" # no newline'}), text, {inc: body, inc3: b'listen "c" # no newline'})); how.append(['an included file that ends inside a token'])
    # nesting: 3000 blocks deep is read by both sides
    deep = lambda d: b'specification "s" { script login { ' + b'foreachplug { ' * d + b'send "x" ' + b'} ' * d + b'} }\n'
    cases.append((write_case(sc, 'deep3000.conf', deep(3000), None), deep(3000), None)); how.append(['3000 nested blocks'])
    cres = run_cases(cases, how, st, diffs, V, layer, seed)
    # ... 6000 deep is a sentence of the grammar that the real parser refuses: bison's stacks stop growing at YYMAXDEPTH = 10000 entries
    # (two per `foreachplug {`), "memory exhausted" goes to yyerror() which prints "parse error".  Recorded, not compared.
    p6 = write_case(sc, 'deep6000.conf', deep(6000), None)
    r6 = run_batch('parse', [p6])[0]
    s6 = c18_predicate(r6)
    if s6: V.append(dict(sig=s6, how=['6000 nested blocks'], detail=lexlayer.brief(r6['err'], 500), replay=dict(layer=layer, how=['6000 nested blocks'], text=base64.b64encode(deep(6000)).decode(), path='deep6000.conf', incs={})))
    st['observation: 6000 nested blocks (a sentence of the grammar): ' + ('accepted' if 'ACCEPT' in r6['out'] else 'refused: ' + lexlayer.diag_class(dict(err=r6['err'].replace('u_gramdump: ', 'u_lexdump: ')))[:40] + ' (parser stack limit YYMAXDEPTH)')] += 1
    sc.close()
    return dict(n=len(cases) + 1, distinct=len(cases) + 1, diffs=diffs, violations=V, stats=st, sample=[dict(text=cases[3][1].decode('latin-1'), result=cres[3]['err'][-80:])])


CANON = [b'listen', q(b'h:1'), b'tcpwrappers', b'no', b'plug_log_level', q(b'info'),
         b'specification', q(b'c'), b'{', b'timeout', b'1.5', b'pingperiod', b'2', b'plug name', b'{', q(b'1'), q(b'2'), b'}',
         b'script', b'login', b'{', b'send', q(b'a'), b'expect', q(b'b'), b'delay', b'0.5', b'}',
         b'script', b'status', b'{', b'foreachplug', b'{', b'setplugstate', b'$', b'1', b'$', b'2', b'on', b'=', q(b'x'), b'off', b'=', q(b'y'), b'}',
         b'foreachnode', b'{', b'setplugstate', q(b'p'), b'$', b'1', b'}', b'ifon', b'{', b'setplugstate', b'$', b'3', b'off', b'=', q(b'z'), b'}',
         b'ifoff', b'{', b'setresult', b'$', b'1', b'$', b'2', b'success', b'=', q(b's'), b'success', b'=', q(b't'), b'}', b'}',
         b'script', b'on_all', b'{', b'send', q(b'c'), b'}', b'}',
         b'device', q(b'd'), q(b'c'), q(b'x |&'), b'device', q(b'e'), q(b'c'), q(b'h:1'), q(b'quiet'),
         b'node', q(b'n1'), q(b'd'), b'node', q(b'n2'), q(b'd'), q(b'2'), b'alias', q(b'a'), q(b'n1')]
CLASSES = [q(b's'), b'7', b'{', b'}', b'=', b'$', b'on', b'off', b'success', b'yes', b'no', b'login', b'ping', b'status_all', b'expect', b'send', b'delay', b'setplugstate', b'setresult',
           b'foreachplug', b'foreachnode', b'ifon', b'ifoff', b'timeout', b'pingperiod', b'plug name', b'script', b'specification', b'device', b'node', b'alias', b'listen',
           b'tcpwrappers', b'plug_log_level', b'@']


def subst_unit(args):
    """every single-token deletion, substitution by a token of every class, and insertion of a token of every class, in a small
    file that uses every production (n > 0: a sample of n of them)"""
    seed, n, layer = args
    R = random.Random(seed)
    sc = Scratch('u')
    variants = [(CANON, 'the canonical file')]
    for i in range(len(CANON)):
        variants.append((CANON[:i] + CANON[i + 1:], 'delete token %d' % i))
        for c in CLASSES:
            if c != CANON[i]: variants.append((CANON[:i] + [c] + CANON[i + 1:], 'token %d replaced by a token of another class' % i))
            variants.append((CANON[:i] + [c] + CANON[i:], 'a token inserted before token %d' % i))
    if n < 0:                       # slice j of k (n = -(1000 k + j)): the complete enumeration spread over k units
        k_, j_ = divmod(-n, 1000); variants = [variants[0]] + [v for x, v in enumerate(variants[1:]) if x % k_ == j_]
    elif n and n < len(variants): variants = [variants[0]] + R.sample(variants[1:], n)
    cases = []; how = []; st = collections.Counter(); diffs = []; V = []
    for j, (toks, h) in enumerate(variants):
        text = b' '.join(toks) + b'\n'
        cases.append((write_case(sc, 'u%d.conf' % j, text, None), text, None)); how.append([re.sub(r'\d+', 'N', h)])
    cres = run_cases(cases, how, st, diffs, V, layer, seed)
    if not cres[0]['out'].endswith('VALID\n'):
        V.append(dict(sig='C18 a small file that uses every production of the grammar is not accepted', detail=cres[0]['err'][-300:], replay=dict(layer=layer, how=how[0], text=base64.b64encode(cases[0][1]).decode(), path='u.conf', incs={})))
    sc.close()
    return dict(n=len(cases), distinct=len(cases), diffs=diffs, violations=V, stats=st, sample=[dict(text=cases[1][1][:100].decode('latin-1'), result=cres[1]['err'][-80:])])


UNITS = dict(derive=derive_unit, mutate=mutate_unit, shipped=shipped_unit, lexedge=lexedge_unit, subst=subst_unit)


def run_unit(u):
    kind, seed, n, layer = u
    r = UNITS[kind]((seed, n, layer))
    r['kind'] = kind
    return r


class GrammarLayer:
    name = 'config-grammar'

    #             derive     mutate     shipped (mutations per file)   lexedge    one-token variants of a file using every production
    def __init__(self, quick=((6, 120), (8, 150), (1, 2), (1, 0), (8, 450)), thorough=((32, 300), (48, 300), (4, 8), (1, 0), (8, 0)), prop='C18'):
        self.quick = quick; self.thorough = thorough; self.prop = prop
        if prop != 'C18': self.name = 'config-grammar-' + prop

    def build(self):
        build(); driver()

    def plan(self, tier, seed):
        cfg = self.thorough if tier == 'thorough' else self.quick
        units = []
        for (kind, (k, n)) in zip(('derive', 'mutate', 'shipped', 'lexedge', 'subst'), cfg):
            if tier == 'widen' and kind in ('derive', 'mutate'): k *= 4
            for j in range(k): units.append((kind, seed * 7919 + j * 104729 + 17 + len(kind), (-(1000 * k + j) if (kind == 'subst' and n == 0 and k > 1) else n), self.name))
        return units

    def run(self, prop, tier, seed):
        self.build()
        rs = pmap(run_unit, sorted(self.plan(tier, seed), key=lambda u: -u[2]))
        st = collections.Counter()
        for r in rs: st.update(r['stats'])
        for r in rs: st['evaluations: ' + r['kind']] += r['n']
        viols = [v for r in rs for v in r['violations']]
        if self.prop == 'C17':
            viols = [dict(v, sig=v['sig'].replace('C18', 'C17', 1)) for v in viols]
        samples = []
        for k in ('derive', 'mutate', 'shipped'):
            for r in rs:
                if r['kind'] == k: samples.append({k: r['sample']}); break
        return dict(name=self.name, evaluations=sum(r['n'] for r in rs), distinct=sum(r['distinct'] for r in rs), samples=samples, stats=dict(sorted(st.items())),
                    diffs=[d for r in rs for d in r['diffs']], violations=viols,
                    rule='one evaluation = one configuration file read by the real conf_init() (flex/bison regenerated from the tree, ASan+UBSan, fresh process) and by the Lean lexer + LL parser + '
                         'action model: sentences derived from the rules of parse_tab.y (every production, optional parts, nesting, long lists, any order), token-level mutations of such sentences '
                         '(delete / duplicate / swap / replace, keyword for string, braces, $N, odd numbers, stray bytes, broken strings, comments and directives at the end of file, slices moved into '
                         'include files), every shipped device file unchanged and mutated, and edge texts for the token level; compared: the token stream (kind, value, file::line of every token), every '
                         'completed item with its full statement trees, accept/reject, diagnostic class and file::line; predicates on the C side alone: the C18 predicate and a recogniser of the grammar '
                         'run on the real lexer\'s tokens (sentence <-> no parse error; the parse error names the line of the first token that cannot continue a sentence); distinct = distinct texts per unit')

    def replay(self, rp, v):
        sc = Scratch('replay')
        rc = 0
        try:
            if rp.get('text') is None:
                print('the input was too large to be stored; re-run the unit: seed=%s index=%s' % (rp.get('seed'), rp.get('index'))); return 1
            text = base64.b64decode(rp['text'])
            incs = {}
            for n, c in (rp.get('incs') or {}).items():
                # the include directives name the scratch directory of the original run: rewrite them to this one
                incs[os.path.join(sc.d, n)] = base64.b64decode(c)
            text = re.sub(rb'[^\s"<]*/gram/[^/\s"]+/', (sc.d + '/').encode(), text)
            incs = {n: re.sub(rb'[^\s"<]*/gram/[^/\s"]+/', (sc.d + '/').encode(), c) for n, c in incs.items()}
            path = write_case(sc, rp.get('path', 'x.conf'), text, incs)
            os.makedirs(REPLAYS, exist_ok=True)
            keep = os.path.join(REPLAYS, '%s-input-%s.conf' % (self.prop, hashlib_sha(text)))
            with open(keep, 'wb') as f: f.write(text)
            print('input (%d bytes, %s) written to %s' % (len(text), rp.get('how'), keep))
            print('run:  %s parse %s' % (build(), keep))
            cases = [(path, text, incs)]
            st = collections.Counter(); diffs = []; V = []
            cres = run_cases(cases, [rp.get('how')], st, diffs, V, self.name, rp.get('seed'))
            r = cres[0]
            print('C    : exit=%d sig=%d' % (r['exit'], r['sig'])); print(r['out'][-1500:] + lexlayer.brief(r['err'], 1500))
            print('Lean :'); print('\n'.join(run_model(cases, 'P')[0])[-1500:])
            for d in diffs: print('DIFF', {k: w for k, w in d.items() if k != 'replay'}); rc = 1
            for x in V: print('PREDICATE', {k: w for k, w in x.items() if k != 'replay'}); rc = 1
        finally:
            sc.close()
        return rc


def hashlib_sha(b):
    import hashlib
    return hashlib.sha1(b).hexdigest()[:10]
