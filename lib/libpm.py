"""C16: the real libpowerman.c / powerman.c reply handling (harness/u_libpm.c, read()/write() wrapped) vs the Lean mirror
Pm.LibPmModel (LpMain driver), plus predicates on the implementation's own results."""
import collections, json, os, random, subprocess, re
from common import *

SRCS = lambda: ['u_libpm.c'] + [S('liblsd/%s.c' % x) for x in ('hostlist', 'list', 'cbuf', 'hash')] + [S('libcommon/%s.c' % x) for x in ('error', 'xmalloc', 'hprintf', 'fdutil', 'argv', 'xpoll', 'xread')]


def build():
    return cc('u_libpm', SRCS(), wraps=['read', 'write', 'close', 'socket', 'connect'])


PROMPT = b'powerman> '
CODES = [101, 102, 103, 104, 105, 201, 202, 203, 204, 205, 208, 209, 210, 211, 213]
TEXT = {101: 'Goodbye', 102: 'Command completed successfully', 103: 'Query complete', 104: 'Telemetry ON', 105: 'Hostrange expansion ON', 201: 'Unknown command', 202: 'Parse error',
        203: 'Command too long', 204: 'Internal powermand error: x::1', 205: 'Hostlist error: invalid range', 208: 'Command in progress', 209: 'No such nodes: zz',
        210: 'Command completed with errors', 211: 'Query completed with errors', 213: 'Command cannot be handled by power control device(s)'}


def hx(b): return b.hex() if b else '-'


def gen_reply(R, node=b't1', hostile=0.15, huge=True):
    """one server reply (up to and including the prompt), mostly conforming"""
    out = b''
    for _ in range(R.choice([0, 0, 1, 1, 2, 3, 6])):
        k = R.random()
        if k < 0.3: out += b'303 ' + R.choice([node, b't2', node + b'x', b'T1']) + b': ' + R.choice([b'on', b'off', b'unknown', b'on ', b'ON', b'71', b'o\x00n', b'of\x00f', b'\x00', b'off\x00']) + b'\r\n'
        elif k < 0.33: out += R.choice([b'\x00303 ' + node + b': on', b'303 ' + node[:1] + b'\x00' + node[1:] + b': off', b'303\x00', b'\x00']) + b'\r\n'     # NUL early in a line: the C string ends there
        elif k < 0.5: out += b'307 ' + R.choice([b't1', b't2', b'n[0-3]', b'a b', b'']) + b'\r\n'
        elif k < 0.65: out += b'302 on:      t[1-2]\r\n'
        elif k < 0.8: out += b'305 send(d0): \'on 1\\n\'\r\n'
        elif k < 0.9: out += b'308 d0: connect timeout\r\n'
        else: out += b'309 t1: ERROR\r\n'
    code = R.choice(CODES + [102, 103, 103, 102])
    term = ('%d %s' % (code, TEXT[code])).encode() + b'\r\n'
    r = R.random()
    if r < hostile:
        k = R.random()
        if k < 0.12: term = b''                                            # no terminal line
        elif k < 0.2: term = term + ('%d x' % R.choice(CODES)).encode() + b'\r\n'   # two terminal lines
        elif k < 0.28: term = b'  +' + term                                   # sscanf skips blanks and a sign
        elif k < 0.36: term = ('%d %s' % (R.choice([256, 300, 99, 0, 4294967398, 99999999999999999999, -102, 512, 1]), 'x')).encode() + b'\r\n'
        elif k < 0.44: term = term[:R.randrange(len(term))]                 # cut inside the line
        elif k < 0.52: term = term.replace(b' ', b'\x00', 1)                # NUL inside
        elif k < 0.60: term = bytes(R.randrange(256) for _ in range(R.randint(1, 30))) + b'\r\n' + term
        elif k < 0.66: term = b'307 ' + b'n' * R.choice([200, 5000, 140000] if huge else [200, 2000]) + b'\r\n' + term
        elif k < 0.72: term = b'abc\r\n' + term                             # a line shorter than five bytes
        elif k < 0.80: term = term[:3] + term[4:]                           # no blank after the code
        elif k < 0.88: out = PROMPT + out                                   # a prompt in the middle
        else: term = term.replace(b'\r\n', b'\n')
    return out + term + PROMPT


def segment(R, stream, tail=None):
    """cut a byte stream into read chunks; tail = what follows (EOF / ERR / nothing = script exhausted)"""
    chunks = []
    mode = R.random()
    if len(stream) > 20000: mode = R.choice([0.1, 0.9])      # very long streams: whole, or cut around the 128 KiB buffer step (the model's list operations are quadratic in the number of reads)
    i = 0
    while i < len(stream):
        if mode < 0.3: n = len(stream)
        elif mode < 0.5: n = R.randint(1, 3)
        elif mode < 0.8: n = R.randint(1, 40)
        else: n = R.choice([1, 9, 10, 11, 131072, 131071]) if len(stream) <= 20000 else R.choice([131072, 131071, 65536, 9000])
        chunks.append(hx(stream[i:i + n])); i += n
    if tail: chunks.append(tail)
    return chunks


def gen_ops(seed, n):
    R = random.Random(seed)
    ops = []
    # corpus (runs first): the known finding F13 - a terminal code that is 0 mod 256 - in an otherwise conforming exchange
    ops.append(('M -1,t1 %s' % ' '.join(segment(R, b'001 VERSION\r\n' + PROMPT + b'256 not a code powermand sends\r\n' + PROMPT + b'101 Goodbye\r\n', None)), None))
    for _ in range(n):
        r = R.random()
        if r < 0.62:
            api = R.choice(['recv', 'status', 'status', 'on', 'off', 'cycle', 'nodes', 'nodes', 'connect'])
            node = R.choice([b't1', b't2', b'n[0-3]', b'a'])
            stream = gen_reply(R, node)
            if api == 'connect': stream = b'001 2.3\r\n' + PROMPT + (gen_reply(R) if R.random() < 0.9 else b'')
            if R.random() < 0.08: stream = stream[:R.randrange(len(stream) + 1)]
            tail = R.choice([None, None, 'EOF', 'ERR'])
            ops.append('L %s %s %s' % (api, hx(node), ' '.join(segment(R, stream, tail))))
        else:
            args = R.choice(['-q,t1', '-1,t1', '-0,t[1-2]', '-c,t1', '-l', '-d', '-x,-q,t1', '-T,-1,t1', '-T,-x,-q', '-b,t1', '-t,t1', '-r,t1', '-f,t1', '-u,t1'])
            nex = 1 + ('-T' in args) + ('-x' in args)
            ver = R.choice([b'VERSION', b'VERSION', b'VERSION', b'9.9', b'', b'a b'])
            stream = b'001 ' + ver + b'\r\n' + PROMPT
            for k in range(nex):
                stream += gen_reply(R, hostile=0.1 if k == nex - 1 else 0.03, huge=False)
            stream += b'101 Goodbye\r\n'
            rr = R.random()
            if rr < 0.10: stream = stream[:R.randrange(len(stream) + 1)]
            elif rr < 0.13: stream = stream.replace(b'001 ', b'002 ', 1)
            tail = R.choice([None, None, None, 'EOF', 'ERR'])
            ops.append(('M %s %s' % (args, ' '.join(segment(R, stream, tail))), None))
    return ops


def one(args):
    seed, n = args
    binary = build()
    p = subprocess.Popen([binary], stdin=subprocess.PIPE, stdout=subprocess.PIPE, stderr=subprocess.PIPE, text=True, env=ASAN_ENV)
    vline = p.stdout.readline().strip()
    version = bytes.fromhex(vline.split(' ')[1]) if ' ' in vline and vline.split(' ')[1] != '-' else b''
    ops = []
    for o in gen_ops(seed, n):
        if isinstance(o, tuple): o = o[0].replace(b'VERSION'.hex(), version.hex())
        ops.append(o)
    try:
        c_out, c_err = p.communicate('\n'.join(ops) + '\n', timeout=600)
    except subprocess.TimeoutExpired:
        p.kill(); c_out, c_err = p.communicate()
    c_lines = c_out.split('\n')[:-1]
    rl = subprocess.run([os.path.join(LEANBIN, 'lpdriver')], input='V %s\n' % hx(version) + '\n'.join(ops) + '\n', capture_output=True, text=True)
    l_lines = rl.stdout.split('\n')[:-1]
    diffs = []; V = []; st = collections.Counter()
    for i, op in enumerate(ops):
        if i >= len(c_lines):
            V.append(dict(sig='C16 client code died: ' + death(c_err), at=i, op=op[:300], detail=c_err[-1500:]))
            diffs.append(dict(at=i, kind='death-not-predicted', op=op[:300], stderr=c_err[-800:]))
            break
        c = c_lines[i]; l = l_lines[i] if i < len(l_lines) else '<missing>'
        st['op ' + op.split(' ')[0] + ' ' + op.split(' ')[1][:10]] += 1
        check(op, c, V, st, i)
        if c != l:
            diffs.append(dict(at=i, kind='answer-differs', op=op[:400], c=c[:400], lean=l[:400])); break
    for v in V: v['replay'] = dict(layer='libpm', ops=[ops[v['at']]] if 'at' in v and len(ops[v['at']]) < 20000 else None, seed=seed, n=n)
    for d in diffs: d['replay'] = dict(layer='libpm', ops=[ops[d['at']]] if len(ops[d['at']]) < 20000 else None, seed=seed, n=n)
    return dict(n=min(len(c_lines), len(ops)), distinct=len(set(ops)), diffs=diffs, violations=V, stats=st, sample=dict(op=ops[0][:300], answer=c_lines[0][:300] if c_lines else ''))


def death(err):
    m = re.search(r'ERROR: AddressSanitizer: (\S+)', err)
    if m:
        fn = re.search(r'#\d+ 0x[0-9a-f]+ in (\w+) [^\n]*(?:powerman|libcommon)', err)
        return 'asan:%s:%s' % (m.group(1), fn.group(1) if fn else '?')
    if 'runtime error' in err: return 'ubsan'
    return 'exit/abort'


def stream_of(op):
    b = b''
    tail = None
    for t in op.split(' ')[3 if op[0] == 'L' else 2:]:
        if t in ('EOF', 'ERR'): tail = t; break
        if t and t != '-': b += bytes.fromhex(t)
    return b, tail


def check(op, c, V, st, i):
    """C16 on the implementation's own answer"""
    stream, tail = stream_of(op)
    if op[0] == 'L':
        api = op.split(' ')[1]
        m = re.search(r'rc=(\d+)', c)
        if not m: return
        rc = int(m.group(1))
        st['rc %d' % rc] += 1
        if api == 'connect': return
        # the reply is what precedes the first point at which the received bytes end in the prompt (at a read boundary); we
        # check the conforming case only: exactly one 1xx/2xx line, stream = lines + prompt, no NUL
        if api == 'status' and rc == 0:
            # any stream, conforming or not: ON / OFF only if some line of the reply, read as the C string it is stored as (it ends at
            # its first NUL), *is* `303 <node>: on` / `: off`
            node = bytes.fromhex(op.split(' ')[2])
            ms = re.search(r'state=(-?\d+)', c)
            if ms and int(ms.group(1)) in (1, 2):
                cand = [l.rstrip(b'\r').split(b'\0')[0] for l in stream.split(b'\n')]
                want_line = b'303 ' + node + (b': on' if int(ms.group(1)) == 2 else b': off')
                st['status answers ON/OFF checked against the lines of the stream'] += 1
                if want_line not in cand:
                    V.append(dict(sig='C16 pm_node_status reports a state no line of the reply gives for that node', at=i, state=int(ms.group(1)), lines=[repr(l[:40]) for l in cand][:8]))
        pos = stream.find(PROMPT)
        if pos < 0 or not stream.endswith(PROMPT) or stream.count(PROMPT) != 1 or b'\0' in stream: return
        body = stream[:pos]
        lines = body.split(b'\r\n')
        if lines[-1] != b'': return
        lines = lines[:-1]
        codes = [int(l[:3]) for l in lines if re.match(rb'^\d\d\d ', l)]
        if len(codes) != len(lines): return
        term = [x for x in codes if 100 <= x < 300]
        if len(term) != 1: return
        st['conforming replies checked'] += 1
        want = 0 if term[0] in (101, 102, 103, 104, 105) else term[0] if term[0] in CODES else 8
        if rc != want: V.append(dict(sig='C16 return code does not match the reply', at=i, rc=rc, code=term[0]))
        if api == 'status' and rc == 0:
            node = bytes.fromhex(op.split(' ')[2])
            state = int(re.search(r'state=(-?\d+)', c).group(1))
            has_on = (b'303 ' + node + b': on') in lines; has_off = (b'303 ' + node + b': off') in lines
            if (state == 2 and not has_on) or (state == 1 and not has_off) or (state == 0 and (has_on or has_off)):
                V.append(dict(sig='C16 pm_node_status disagrees with the reply', at=i, state=state, lines=[l.decode('latin1') for l in lines][:6]))
        if api == 'nodes' and rc == 0:
            ma = re.search(r'after=(\d+) second=(\d+)', c)
            if ma and int(ma.group(1)) != 0:
                V.append(dict(sig='C16 node iteration hands out nodes again after it reported the end', at=i, extra_nodes=int(ma.group(1))))
            got = re.search(r'nodes=(\S+)', c).group(1)
            got = [] if got == '-' else [bytes.fromhex(x) for x in got.split(',')]
            want_nodes = [l[4:].split()[0] for l in lines if l.startswith(b'307 ') and l[4:].split()]
            if got != want_nodes: V.append(dict(sig='C16 node iteration differs from the 307 lines', at=i, got=[g.decode('latin1') for g in got][:6], want=[w.decode('latin1') for w in want_nodes][:6]))
    else:
        m = re.search(r'exit=(\d+)', c)
        if not m:
            V.append(dict(sig='C16 CLI killed by a signal', at=i, answer=c[:200])); return
        ex = int(m.group(1)); st['cli exit %d' % ex] += 1
        # conforming exchange: exit 0 iff the main command's terminal code is 1xx
        if b'\0' in stream: return
        parts = stream.split(PROMPT)
        args = op.split(' ')[1]
        nex = 1 + ('-T' in args) + ('-x' in args)
        if len(parts) != nex + 2 or parts[-1] != b'101 Goodbye\r\n' or tail in ('ERR',): return
        if not re.match(rb'^001 \S+\r\n$', parts[0]): return
        codes = []
        for part in parts[1:-1]:
            ls = part.split(b'\r\n')
            if ls[-1] != b'' or not all(re.match(rb'^\d\d\d .', l) for l in ls[:-1]): return
            t = [int(l[:3]) for l in ls[:-1] if 100 <= int(l[:3]) < 300]
            if len(t) != 1 or not (100 <= int(ls[-2][:3]) < 300): return
            codes.append(t[0])
        st['conforming CLI exchanges checked'] += 1
        firstbad = next((x for x in codes if x >= 200), None)
        if firstbad is not None and codes.index(firstbad) < len(codes) - 1: return    # an option exchange failed: stream no longer lines up
        want = codes[-1] if codes[-1] >= 200 else 0
        if ex != want % 256: V.append(dict(sig='C16 CLI exit status does not reflect the terminal code', at=i, exit=ex, code=codes[-1]))
        elif want != 0 and ex == 0: V.append(dict(sig='cli-exit code%256==0', at=i, code=codes[-1]))


class LibPmLayer:
    name = 'libpm'

    def __init__(self, quick=(16, 250), thorough=(128, 1500)):
        self.quick = quick; self.thorough = thorough

    def build(self): build()

    def run(self, prop, tier, seed):
        ns, n = self.quick if tier == 'quick' else self.thorough if tier == 'thorough' else (self.quick[0] * 4, self.quick[1])
        self.build()
        rs = pmap(one, [(seed * 5003 + k * 9001 + 17, n) for k in range(ns)])
        st = collections.Counter()
        for r in rs: st.update(r['stats'])
        return dict(name=self.name, evaluations=sum(r['n'] for r in rs), distinct=sum(r['distinct'] for r in rs), samples=[rs[0]['sample']],
                    stats=dict(sorted(st.items())), diffs=[d for r in rs for d in r['diffs']], violations=[v for r in rs for v in r['violations']],
                    rule='one evaluation = one libpowerman API call (recv/status/on/off/cycle/nodes/connect) or one run of the CLI main() against a scripted server stream: conforming replies with every code and payload, plus truncated, oversized (140 kB lines), missing or doubled terminal lines, NULs, random bytes, prompts in the middle; every stream cut into reads (whole, 1-3 bytes, random, around 10 and around the 128 KiB buffer step) and ended by nothing/EOF/error; distinct = distinct op lines')

    def replay(self, rp, v):
        ops = rp.get('ops')
        if not ops:
            print('re-generate with seed', rp.get('seed')); return 1
        binary = build()
        p = subprocess.run([binary], input='\n'.join(ops) + '\n', capture_output=True, text=True, env=ASAN_ENV)
        print(p.stdout[-2000:]); print(p.stderr[-2000:])
        return 1


class GreetingLayer:
    """C16, oversized server lines at the one place the CLI sizes a buffer from the protocol: the greeting.  A protocol-perfect
    exchange whose version word is just below, at, just above and three times CP_LINEMAX (read from the tree).  The real CLI runs
    under ASan; the predicates of `check` apply (exit status = what the terminal code says, not killed).  Not compared with the
    model: the list-based CLI model needs minutes per 100 KiB line (DESIGN §12), and err() cuts the version warning where the
    model prints it whole."""
    name = 'libpm-greeting'

    def build(self): build()

    def run(self, prop, tier, seed):
        binary = build()
        linemax = int(re.search(r'#define\s+CP_LINEMAX\s+(\d+)', open(S('powerman/client_proto.h')).read()).group(1))
        R = random.Random(seed)
        ops = []
        for n in [10, linemax - 8, linemax - 1, linemax, linemax + 1, 3 * linemax]:
            for cut in ([1 << 30, linemax] if tier == 'quick' else [1 << 30, linemax, 65536, 9000]):
                code = R.choice([102, 102, 210, 204])
                stream = b'001 ' + bytes(R.choice(b'abcxyz0189.-') for _ in range(n)) + b'\r\n' + PROMPT + ('%d %s' % (code, TEXT[code])).encode() + b'\r\n' + PROMPT + b'101 Goodbye\r\n'
                ops.append('M -1,t1 ' + ' '.join(hx(stream[i:i + cut]) for i in range(0, len(stream), cut)))
        p = subprocess.run([binary], input='\n'.join(ops) + '\n', capture_output=True, text=True, env=ASAN_ENV, timeout=900)
        c_lines = p.stdout.split('\n')[1:-1]
        V = []; st = collections.Counter()
        for i, op in enumerate(ops):
            if i >= len(c_lines):
                V.append(dict(sig='C16 client code died: ' + death(p.stderr), at=i, detail=p.stderr[-1500:])); break
            c = c_lines[i]
            stream, _ = stream_of(op)
            st['version word of %d bytes' % (stream.index(b'\r\n') - 4)] += 1
            check(op, c, V, st, i)
            if 'signal=' in c.split(' out=')[0]: st['CLI runs killed by a signal'] += 1
        for v in V: v['replay'] = dict(layer=self.name, seed=seed, tier=tier, at=v.get('at'))
        return dict(name=self.name, evaluations=min(len(c_lines), len(ops)), distinct=len(ops), samples=[dict(version_bytes=linemax, answer=c_lines[-1][:120] if c_lines else '')],
                    stats=dict(st), diffs=[], violations=V,
                    rule='one evaluation = one run of the real CLI main() (forked child, ASan) against a conforming exchange whose greeting carries a version word of 10, CP_LINEMAX-8, -1, +0, +1 and 3*CP_LINEMAX bytes, whole and cut at the buffer step; predicates on the implementation only (not compared with the model)')

    def replay(self, rp, v):
        r = self.run('C16', rp.get('tier', 'quick'), rp.get('seed', 1))
        for x in r['violations']: print(json.dumps({k: str(y)[:400] for k, y in x.items()}))
        return 1 if r['violations'] else 0
