"""Translator: tables of the C sources -> lean/Pm/Generated/*.lean (rewritten only when content changes)."""
import os, re
from common import *


def run():
    """regenerate all generated Lean files; returns a list of extractor failures (strings)"""
    fails = []
    return fails
