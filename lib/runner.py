import json, os, sys, time, traceback, collections, hashlib
from common import *
import props


def setup():
    t0 = time.time()
    import translate
    translate.run_all()
    ok, out = lake_build()
    if not ok:
        print(out[-4000:])
        print('setup: lake build failed')
        return 1
    # harness builds are keyed by tree content; building them here only warms the cache
    for L in props.all_layers():
        try:
            L.build()
        except BuildError as e:
            print('setup: %s' % e)
            return 1
    print('setup ok in %.0fs' % (time.time() - t0))
    return 0


def lean_obligations(prop, tier):
    # the generated tables and the build output live in one place: translate + build + audit are one critical section, so that
    # checks running at the same time against different trees (seeded changes tried in parallel) never see each other's tables
    with Lock('lean-obligations'):
        return _lean_obligations(prop, tier)


def _lean_obligations(prop, tier):
    """returns dict(ok, theorems={name: axioms}, failures=[...], checker_cmd)"""
    import translate
    res = dict(ok=True, theorems={}, failures=[], partial=[], counterexamples=[])
    tfail = translate.run_all()
    for f in tfail:
        res['ok'] = False
        res['failures'].append('translator: ' + f)
    ok, out = lake_build()
    if not ok:
        res['ok'] = False
        errs = [l for l in out.split('\n') if 'error' in l.lower()][:12]
        res['failures'].append('lake build failed: ' + ' | '.join(errs))
        res['build_log'] = out[-6000:]
        return res
    hits = grep_forbidden()
    if hits:
        res['ok'] = False
        res['failures'].append('forbidden construct in the library: ' + '; '.join(hits[:5]))
    module = 'Pm.Props.' + prop
    mf = os.path.join(LEAN, 'Pm', 'Props', prop + '.lean')
    names = theorems_of(mf)
    ax, txt, rc = audit_axioms(module, names)
    for n in names:
        if n not in ax:
            res['ok'] = False
            res['failures'].append('theorem %s did not elaborate in the audit' % n)
        elif not set(ax[n]) <= STD_AXIOMS:
            res['ok'] = False
            res['failures'].append('theorem %s depends on non-standard axioms %s' % (n, ax[n]))
        res['theorems'][n] = ax.get(n)
        if n.endswith('_partial'): res['partial'].append(n)
        if 'counterexample' in n or 'witness' in n: res['counterexamples'].append(n)
    if tier == 'thorough':
        r = run(['lake', 'env', 'leanchecker', module], cwd=LEAN)
        res['leanchecker'] = 'ok' if r.returncode == 0 else (r.stdout + r.stderr)[-500:]
        if r.returncode != 0:
            res['ok'] = False
            res['failures'].append('leanchecker rejected ' + module)
    return res


def match_known(prop, v, known):
    for k in known:
        if k['prop'] == prop and k['sig'].replace('_', ' ') in (v.get('sig', '') + ' ' + v.get('detail', '')):
            return k
    return None


def check(prop, tier):
    t0 = time.time()
    desc = props.PROPS[prop]
    known = known_findings()
    ev = dict(property_id=prop, tier=tier, seed=SEED, level='proof', coverage={}, assumptions=list(desc.get('assumptions', [])), wall_s=0.0, violations=0)
    lean = dict(ok=False, theorems={}, failures=['not run'])
    layers_out = []
    verdict_lines = []
    exitcode = 0
    try:
        lean = lean_obligations(prop, tier)
        for L in desc['layers']:
            try:
                r = L.run(prop, tier, SEED)
            except BuildError as e:
                r = dict(name=L.name, evaluations=0, distinct=0, samples=[], stats={}, diffs=[dict(kind='harness-build', detail=str(e)[-3000:])], violations=[], rule='')
            layers_out.append(r)
        diffs = [dict(d, layer=r['name']) for r in layers_out for d in r['diffs']]
        viols = [dict(v, layer=r['name']) for r in layers_out for v in r['violations']]
        broken = (not lean['ok']) or bool(diffs)
        if broken and not [v for v in viols if not match_known(prop, v, known)]:
            # the tie or a proof obligation broke and no failing input is in hand: widen the search
            log('correspondence / proof obligation broken; widening the search for a failing input')
            for L in desc['layers']:
                try:
                    r = L.run(prop, 'widen', SEED + 1000)
                    viols += [dict(v, layer=r['name']) for v in r['violations']]
                    layers_out.append(dict(r, name=r['name'] + ' (widened search)'))
                except BuildError:
                    pass
        # A divergence between the real code and the model in an observable that a proved refinement theorem of this property pins
        # down is itself a concrete failing input: the model's value there is what the property prescribes (by that theorem), the
        # real code produced something else on this very input.  Only consulted when the tie is broken and no predicate fired.
        if broken and diffs and not [v for v in viols if not match_known(prop, v, known)]:
            import re as _re
            for rx, text in desc.get('refines', []):
                for d in diffs:
                    hit = [l for l in d.get('lines', []) if _re.search(rx, l.get('c', '') or '') or _re.search(rx, l.get('lean', '') or '')]
                    if hit and d.get('replay'):
                        viols.append(dict(sig='%s %s' % (prop, text), at=d.get('at'), op=d.get('op'), real_code=hit[0].get('c'), prescribed=hit[0].get('lean'),
                                          replay=d['replay'], layer=d.get('layer')))
                        break
        new = []
        seen_known = {}
        for v in viols:
            k = match_known(prop, v, known)
            if k: seen_known[k['sig']] = k
            else: new.append(v)
        for k in seen_known.values():
            verdict_lines.append('KNOWN-FINDING: property=%s %s' % (prop, k['text']))
        if new:
            # one replay per distinct signature
            bysig = collections.OrderedDict()
            for v in new: bysig.setdefault(v.get('sig', '?'), v)
            for sig, v in list(bysig.items())[:5]:
                name = hashlib.sha1((sig + json.dumps(v.get('replay', ''), sort_keys=True, default=str)).encode()).hexdigest()[:10]
                path = write_replay(prop, '%s-%d-%s' % (tier, SEED, name), dict(property=prop, kind='failing-input', violation=v,
                                    how_to_replay='./check replay <this file>'))
                verdict_lines.append('VIOLATION property=%s replay=%s' % (prop, path))
            exitcode = 1
        elif broken:
            what = lean['failures'] + ['correspondence %s: %s' % (d.get('layer'), d.get('kind')) for d in diffs]
            path = write_replay(prop, '%s-%d-broken' % (tier, SEED), dict(property=prop, kind='no-failing-input-found',
                                broken=what, first_divergences=diffs[:3], lean=lean.get('build_log', '')[-3000:],
                                how_to_replay='./check replay <this file>'))
            verdict_lines.append('VIOLATION property=%s replay=%s no-failing-input-found' % (prop, path))
            exitcode = 1
        ev['violations'] = len(new) if new else (1 if broken else 0)
    except Exception as e:
        traceback.print_exc()
        path = write_replay(prop, '%s-%d-internal' % (tier, SEED), dict(property=prop, kind='no-failing-input-found', broken=['check machinery failed: %r' % e], trace=traceback.format_exc()))
        verdict_lines.append('VIOLATION property=%s replay=%s no-failing-input-found' % (prop, path))
        exitcode = 1
        ev['violations'] = 1
    # ---- evidence
    names = list(lean.get('theorems', {}).keys())
    discharged = sum(1 for n in names if lean['theorems'].get(n) is not None and set(lean['theorems'][n]) <= STD_AXIOMS) if lean.get('theorems') else 0
    evals = sum(r['evaluations'] for r in layers_out)
    cov = dict(
        obligations=max(len(names), 1), discharged=discharged if lean.get('ok') or discharged < len(names) else discharged,
        checker_cmd='cd /verif/lean && lake build Pm && lake env lean <audit file with #print axioms for each theorem of Pm/Props/%s.lean>%s' % (prop, ' && lake env leanchecker Pm.Props.' + prop if tier == 'thorough' else ''),
        trusted_base=props.TRUSTED_BASE + desc.get('trusted', []),
        theorems=lean.get('theorems', {}), partial_theorems=lean.get('partial', []), counterexample_theorems=lean.get('counterexamples', []),
        planned_not_yet_proved=desc.get('planned', []),
        lean_failures=lean.get('failures', []),
        evaluations=evals, distinct_nontrivial=sum(r['distinct'] for r in layers_out),
        rule=' || '.join('%s: %s' % (r['name'], r['rule']) for r in layers_out),
        samples=[s for r in layers_out for s in r['samples']][:8] or ['(no correspondence layer ran)'],
        traces_validated_against_impl=evals,
        correspondence=[dict(layer=r['name'], evaluations=r['evaluations'], disagreements=len(r['diffs']), predicate_violations=len(r['violations']),
                             distribution=r['stats']) for r in layers_out],
        disagreements_checked=sum(len(r['diffs']) for r in layers_out),
        leanchecker=lean.get('leanchecker'),
        verdict=verdict_lines,
    )
    if layers_out and all(r.get('exhaustive') for r in layers_out): cov['exhaustive'] = True
    ev['coverage'] = cov
    ev['wall_s'] = round(time.time() - t0, 2)
    write_evidence(prop, ev)
    for l in verdict_lines: print(l)
    if exitcode == 0:
        print('OK property=%s tier=%s theorems=%d evaluations=%d wall=%.0fs' % (prop, tier, len(names), evals, time.time() - t0))
    return exitcode


def replay(path):
    j = json.load(open(path))
    print(json.dumps({k: v for k, v in j.items() if k not in ('violation',)}, indent=1)[:3000])
    v = j.get('violation') or {}
    rp = v.get('replay')
    if rp and rp.get('layer'):
        L = props.layer_by_name(rp['layer'])
        if L: return L.replay(rp, v)
    print(json.dumps(v, indent=1, default=str)[:6000])
    return 0


def main(argv):
    if not argv or argv[0] in ('-h', '--help'):
        print(__doc__ or 'usage: check setup | check Cxx quick|thorough | check replay file'); return 2
    if argv[0] == 'setup': return setup()
    if argv[0] == 'replay': return replay(argv[1])
    tier = argv[1] if len(argv) > 1 else os.environ.get('VERIF_TIER', 'quick')
    if argv[0] not in props.PROPS:
        print('unknown property', argv[0]); return 2
    return check(argv[0], tier)
