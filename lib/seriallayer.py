"""serial devices: the real powerman/device_serial.c (serial_connect with its sscanf, the static _serial_setup; harness/u_serial.c,
ASan+UBSan) on a pseudo-terminal against the Lean model Pm/Serial.lean behind the driver srdriver (SrMain.lean).

S ops: a fresh pty whose slave is first put into a randomly drawn termios state (cooked defaults, or random flag words and control
characters), then the real code configures it (through the flags string or with explicit parameters), the settings it asked
for and those the kernel reports are read, and bytes are pushed through the real kernel line discipline both ways.  The model
answers the same op from parseFlags / serialSetup / ttyOut / ttyIn and every field is compared.
T ops: no powerman code: the tty model itself (ttyOut, ttyIn, pollReadable) against the kernel in random termios states.

Predicates on the C side's own answers (C09 for serial devices; nothing of the model is consulted):
  what arrived at the other end of the line is what was sent, in both directions, and nothing is echoed back;
  the character format asked of tcsetattr (speed, size, parity, stop bits) is the one the parameters name; bad parameters are
  refused, good ones are not (a blank or missing flags string means the defaults 9600,8N1); serial_connect never aborts; once bytes have
  arrived poll() reports the descriptor readable; the descriptor is non-blocking."""
import collections, hashlib, os, random, subprocess, termios
from common import *

SERIAL_C = os.environ.get('VERIF_SERIAL_C', '')       # another device_serial.c than the tree's (to try a change without touching the repository)


def build():
    srcs = ['u_serial.c', S('libcommon/error.c'), S('libcommon/xmalloc.c'), S('libcommon/fdutil.c')]
    if SERIAL_C:
        tag = hashlib.sha1((SERIAL_C + open(SERIAL_C).read()).encode()).hexdigest()[:10]
        return cc('u_serial-' + tag, srcs, san=True, defines=['SERIAL_C="%s"' % SERIAL_C])
    return cc('u_serial', srcs, san=True)


_drv = None


def driver():
    """the Lean driver (built with the library by `lake build`; asked for by name because lake_build()'s default targets are fixed)"""
    global _drv
    if _drv is None:
        ok, out = lake_build(('srdriver',))
        if not ok: raise BuildError('srdriver does not build:\n' + out[-3000:])
        _drv = os.path.join(LEANBIN, 'srdriver')
    return _drv


T = termios
BAUDS = {300: T.B300, 1200: T.B1200, 2400: T.B2400, 4800: T.B4800, 9600: T.B9600, 19200: T.B19200, 38400: T.B38400, 57600: T.B57600,
         115200: T.B115200, 230400: T.B230400, 460800: T.B460800}
CBAUD = 0o10017
CSIZE, CS7, CS8, CSTOPB, PARENB, PARODD = T.CSIZE, T.CS7, T.CS8, T.CSTOPB, T.PARENB, T.PARODD
IFLAGS = [T.IGNBRK, T.BRKINT, T.IGNPAR, T.PARMRK, T.INPCK, T.ISTRIP, T.INLCR, T.IGNCR, T.ICRNL, T.IUCLC, T.IXON, T.IXANY, T.IXOFF, T.IMAXBEL, 0o40000]
IUTF8 = 0o40000
OFLAGS = [1 << k for k in range(16)]
LFLAGS_MODEL = [T.ISIG, T.ICANON, T.ECHO, T.ECHOE, T.ECHOK, T.ECHONL, T.NOFLSH, T.ECHOCTL, T.ECHOKE, T.IEXTEN, 0o200000]      # + EXTPROC
LFLAGS_INERT = [T.XCASE, T.TOSTOP, T.FLUSHO, T.PENDIN]
CC_DEFAULT = [3, 28, 127, 21, 4, 0, 1, 17, 19, 26, 0, 18, 23, 22, 0]     # INTR QUIT ERASE KILL EOF TIME MIN START STOP SUSP EOL REPRINT WERASE LNEXT EOL2
SPECIAL = [0, 3, 4, 8, 9, 10, 13, 17, 19, 21, 22, 23, 18, 26, 27, 28, 32, 65, 97, 122, 127, 128, 141, 159, 160, 191, 192, 223, 224, 255]


def subset(R, bits, p):
    w = 0
    for b in bits:
        if R.random() < p: w |= b
    return w


def gen_cc(R, wild):
    if R.random() < (0.3 if wild else 0.6): return None
    cc = list(CC_DEFAULT)
    for k in range(15):
        if k in (5, 6): continue
        if R.random() < (0.25 if wild else 0.08):
            cc[k] = R.choice([0, 0, R.randint(1, 31), R.randint(1, 31), R.choice(SPECIAL), R.randint(0, 255)])
    r = R.random()
    if r < 0.3: cc[6] = R.choice([0, 1, 1, 2, 3, 10, 100, 255])                # VMIN
    if R.random() < 0.3: cc[5] = R.choice([0, 0, 1, 5, 255])                   # VTIME
    return cc


def gen_words(R):
    """initial flag words of an S op"""
    r = R.random()
    if r < 0.15: return [R.getrandbits(32) for _ in range(4)]
    if r < 0.2: return [0xffffffff] * 4
    if r < 0.25: return [0, 0, 0, 0]
    if r < 0.31:
        # already the way _serial_setup leaves it: on a pty a further request for 7 bits or parity then changes nothing (tcsetattr: EINVAL)
        return [0, R.choice([0, 4, 0xfffe]), 0xb0 | R.choice(list(BAUDS.values())) | R.choice([0, 0x40]), 0]
    if r < 0.45:
        w = [0x500, 5, 0xbf, 0x8a3b]
        for _ in range(R.randint(1, 6)):
            k = R.randrange(4); w[k] ^= 1 << R.randrange(17)
        return w
    p = R.choice([0.1, 0.3, 0.5, 0.8])
    return [subset(R, [1 << k for k in range(16)], p), subset(R, OFLAGS, p), R.getrandbits(32) if R.random() < 0.3 else subset(R, [1 << k for k in range(13)], 0.5),
            subset(R, [1 << k for k in range(17)], p)]


def gen_data(R, cc, long):
    """bytes for the line: every value, the usual suspects more often"""
    hot = [13, 10, 9, 8, 0x11, 0x13, 0x03, 0x1c, 0x1a, 0x7f, 0xff, 0, 4, 0x15, 0x16, 0x17, 0x12] + [c for c in (cc or []) if c]
    if long:
        b = list(range(256)); R.shuffle(b)
        for _ in range(R.randint(4, 40)): b.insert(R.randrange(len(b) + 1), R.choice(hot))
        if R.random() < 0.3: b += [R.choice(hot) for _ in range(R.randint(1, 30))]
        return bytes(b)
    n = R.choice([0, 1, 1, 2, 3, 5, 8, 13, 40])
    return bytes(R.choice(hot) if R.random() < 0.5 else R.choice(SPECIAL) if R.random() < 0.5 else R.randrange(256) for _ in range(n))


def gen_int(R, good):
    r = R.random()
    if r < 0.72: return R.choice(good)
    if r < 0.8: return R.choice(good) + R.choice([-1, 1])
    if r < 0.86: return R.randint(-3, 12)
    if r < 0.93: return R.choice([0, -1, 2 ** 31 - 1, -2 ** 31, 110, 600, 921600, 56000, 14400])
    return R.randint(-2 ** 31, 2 ** 31 - 1)


def gen_flags(R):
    """a flags string as the configuration file may hold it"""
    r = R.random()
    if r < 0.04: return b''
    if r < 0.06: return R.choice([b' ', b'\t', b' \n ', b'  \t '])
    baud = str(gen_int(R, list(BAUDS))); db = str(gen_int(R, [7, 8])); sb = str(gen_int(R, [1, 2]))
    par = R.choice('nNeEoO') if R.random() < 0.8 else chr(R.choice([32, 44, 48, 49, 109, 112, 120, 78 + 128, 255, 9, 45]))
    if r < 0.10:
        big = R.choice(['4294976896', '99999999999999999999', '-99999999999999999999', '9223372036854775807', '9223372036854775808', '18446744073709561216', '0009600', '+9600', '-9600', '-0'])
        baud = big
    s = baud + ',' + db + par + sb
    k = R.random()
    if k < 0.55: pass
    elif k < 0.62: s = baud                                   # the rest defaults
    elif k < 0.66: s = baud + ','
    elif k < 0.72: s = baud + ',' + db
    elif k < 0.78: s = baud + ',' + db + par
    elif k < 0.82: s = ' ' + baud + ', ' + db + par + ' ' + sb
    elif k < 0.85: s = baud + ' ,' + db + par + sb
    elif k < 0.88: s = baud + ',' + db + ' ' + par + sb
    elif k < 0.91: s = R.choice(['x', ',8n1', 'n81', '-', '+', '-,8n1', '9600;8n1', '9600,x', '9600,8n-', '9600,8nx', '0x2580,8n1', '9600.0,8n1', '9600,8,n,1'])
    elif k < 0.94: s = s + R.choice([' ', 'x', ',', '\n', '1', ',9600'])
    elif k < 0.97: s = ''.join(R.choice('0123456789,neo -+\t') for _ in range(R.randint(1, 12)))
    else: s = baud + ',' + db + par + sb + '\x00junk'
    return s.encode('latin1')


def hx(b): return b.hex() if b else '-'


def gen_S(R):
    mode = 0 if R.random() < 0.3 else 1
    w = gen_words(R) if mode else [0, 0, 0, 0]
    cc = gen_cc(R, False) if mode else None
    if mode and w[0] == 0 and w[3] == 0 and not (w[1] & 1) and R.random() < 0.5:
        # already raw: whether tcsetattr on a pty then reports EINVAL must not depend on the control characters (they do change: VMIN, VTIME)
        cc = list(cc or CC_DEFAULT); cc[6] = R.choice([0, 1, 2, 10, 255]); cc[5] = R.choice([0, 0, 5, 255])
    via = 'c' if R.random() < 0.6 else 'd'
    flags = gen_flags(R) if via == 'c' else b''
    baud, db, sb = gen_int(R, list(BAUDS)), gen_int(R, [7, 8]), gen_int(R, [1, 2])
    par = ord(R.choice('nNeEoO')) if R.random() < 0.8 else R.choice([0, 32, 109, 112, 255, 78 + 128, 110 - 256, -1, 101 + 256 * 0])
    long = R.random() < 0.8
    out = gen_data(R, cc, long); inp = gen_data(R, cc, long)
    return 'S %d %x %x %x %x %s %s %s %d %d %d %d %s %s' % (mode, w[0], w[1], w[2], w[3], hx(bytes(cc)) if cc else '-', via, hx(flags), baud, db, par, sb, hx(out), hx(inp))


def gen_T(R):
    """a termios state inside the domain the tty model is validated in (Pm.Serial.validated), and short data"""
    p = R.choice([0.1, 0.25, 0.5, 0.8])
    r = R.random()
    if r < 0.12: w = [0x500, 5, 0xbf, 0x8a3b]                 # cooked
    elif r < 0.2:
        w = [0x500, 5, 0xbf, 0x8a3b]
        for _ in range(R.randint(1, 5)):
            k = R.choice([0, 1, 3]); w[k] ^= R.choice(IFLAGS if k == 0 else OFLAGS if k == 1 else LFLAGS_MODEL)
    else: w = [subset(R, IFLAGS, p), subset(R, OFLAGS, R.choice([0.1, 0.3, 0.6])), R.getrandbits(32) if R.random() < 0.5 else 0xbf, subset(R, LFLAGS_MODEL, p)]
    if R.random() < 0.7: w[1] |= 1                             # OPOST: otherwise the rest of c_oflag is idle
    if R.random() < 0.25: w[1] |= 0o14000                      # XTABS
    if R.random() < 0.85: w[3] &= ~0o200000                    # EXTPROC rarely
    if R.random() < 0.3: w[3] |= subset(R, LFLAGS_INERT, 0.5)
    if w[3] & T.ICANON: w[0] &= ~IUTF8; w[3] &= ~0o200000
    cc = gen_cc(R, True)
    ccv = cc or CC_DEFAULT
    hot = [c for k, c in enumerate(ccv) if c and k not in (5, 6)] + [13, 10, 9, 9, 8, 0xff, 0, 32, 65, 97, 0xe9, 0xc9, 0x80, 0xbf, 0xdf, 0x5f]

    def data(maxlen):
        n = R.choice([0, 1, 2, 3, 5, 8, 13, 21, 34, maxlen])
        return [R.choice(hot) if R.random() < 0.55 else R.choice(SPECIAL) if R.random() < 0.4 else R.randrange(256) for _ in range(n)]
    out = data(80); inp = data(80)
    if (w[3] & T.ISIG) and not (w[3] & T.NOFLSH):
        # a signal character flushes what the echo has already handed to the other side: whether those bytes are still in flight depends
        # on scheduling.  Echo is handed over before the end of the piece only by a restart (no START/STOP then, whatever ISTRIP/IUCLC
        # map to them), or by a signal character when only ECHONL echoes (NOFLSH then).
        if w[0] & T.IXON:
            lo = lambda c: c + 32 if (65 <= c <= 90 or 192 <= c <= 214 or 216 <= c <= 222) else c
            inp = [c for c in inp if not ({c, c & 127, lo(c), lo(c & 127)} & {ccv[7], ccv[8]})]
        if (w[3] & T.ECHONL) and not (w[3] & T.ECHO): w[3] |= T.NOFLSH
    return 'T %x %x %x %x %s %s %s' % (w[0], w[1], w[2], w[3], hx(bytes(cc)) if cc else '-', hx(bytes(out)), hx(bytes(inp)))


def gen_ops(seed, n, tshare=0.4):
    R = random.Random(seed)
    return [gen_T(R) if R.random() < tshare else gen_S(R) for _ in range(n)]


def fields(line):
    d = collections.OrderedDict()
    for w in line.split(' ')[1:]:
        k, _, v = w.partition('=')
        d[k] = v
    return d


def unhx(s): return b'' if s in ('-', '') else bytes.fromhex(s)


def with_hints(ops, l_out):
    """T ops get the number of bytes to wait for (from the model's answer): they only bound the waiting, never the answer"""
    out = []
    for op, a in zip(ops, l_out):
        if op[0] == 'T':
            f = fields(a)
            we = len(unhx(f.get('echo', '-'))) if int(f.get('backlog', '0')) < 256 else 0
            out.append('%s %d %d %d' % (op, len(unhx(f.get('out', '-'))), len(unhx(f.get('in', '-'))), we))
        else: out.append(op)
    return out


def run_lean(ops):
    r = subprocess.run([driver()], input='\n'.join(ops) + '\n', capture_output=True, text=True)
    out = r.stdout.split('\n')[:-1]
    if r.returncode != 0 or len(out) != len(ops): raise RuntimeError('srdriver answered %d of %d lines: %s' % (len(out), len(ops), r.stderr[-400:]))
    return out


def run_c(binary, ops):
    try:
        r = subprocess.run([binary], input='\n'.join(ops) + '\n', capture_output=True, text=True, env=ASAN_ENV, timeout=600)
        return r.stdout.split('\n')[:-1], r.returncode, r.stderr
    except subprocess.TimeoutExpired as e:
        dec = lambda b: b.decode('latin1') if isinstance(b, bytes) else (b or '')
        return dec(e.stdout).split('\n')[:-1], -9, dec(e.stderr) + '\nHUNG'


def first_diff(a, b):
    for i in range(min(len(a), len(b))):
        if a[i] != b[i]: return i
    return min(len(a), len(b)) if len(a) != len(b) else None


def describe(sent, got):
    i = first_diff(sent, got)
    if i is None: return ''
    return 'at offset %d: sent …%s… arrived …%s… (%d bytes sent, %d arrived)' % (i, sent[max(0, i - 2):i + 3].hex(' '), got[max(0, i - 2):i + 4].hex(' '), len(sent), len(got))


def as_char(v): return (v + 128) % 256 - 128


def check_props(op, ans, V, st):
    """the property on the real code's own answer to one S op"""
    w = op.split(' ')
    if w[0] != 'S': return
    f = fields(ans)
    via = w[7]; res = f.get('res')
    st['S via ' + ('serial_connect' if via == 'c' else '_serial_setup')] += 1
    if res == '-6':
        V.append(dict(sig='C09 serial: the daemon aborts in serial_connect', detail='assertion %s fails (sscanf answered n=%s)' % (f.get('err'), f.get('n')), op=op[:300]))
        return
    p = [int(x) for x in f['p'].split(',')]
    baud, db, par, sb = p
    if via == 'c':
        fl = unhx(w[8]).split(b'\x00')[0]
        if not fl.strip(b' \t\n\v\f\r'):
            # no flags / a blank flags string: the documented defaults
            st['blank flags string: defaults 9600,8N1'] += 1
            if p != [9600, 8, ord('N'), 1]: V.append(dict(sig='C09 serial: a blank flags string does not mean the defaults 9600,8N1', detail='parameters %r' % p, op=op[:300]))
    bad = None
    if baud not in BAUDS: bad = 'baud'
    elif db not in (7, 8): bad = 'databits'
    elif sb not in (1, 2): bad = 'stopbits'
    elif chr(par) not in 'nNeEoO': bad = 'parity'
    if via == 'd':
        # the answer must be about the parameters of the op
        want = [int(w[9]), int(w[10]), int(w[11]) % 256, int(w[12])]
        if want != p: V.append(dict(sig='C09 serial harness: parameters not passed through', op=op[:200], got=p))
    if bad:
        st['refused: ' + bad] += 1
        if res != '0' or f.get('err') != bad or f.get('asked') != '-':
            V.append(dict(sig='C09 serial: parameters that name no character format are not refused', detail='%s=%r: res=%s err=%s asked=%s' % (bad, p, res, f.get('err'), f.get('asked')), op=op[:300]))
        return
    st['accepted %d,%d%c%d' % (baud if baud in (9600, 115200) else 0, db, chr(par).lower(), sb)] += 1
    if res == '0' and f.get('err') == 'tcsetattr' and f.get('asked', '-') != '-':
        # the pseudo-terminal and glibc, not powerman: tcsetattr (Debian glibc 2.36) fails with EINVAL when none of the four flag words changed
        # (control characters do not count) and the pty did not keep PARENB / CREAD / a non-zero CSIZE as asked.  Established from the
        # answer itself: what was asked, as a pty keeps it, is the state the slave was in, and size / parity / CREAD were asked otherwise.
        a = [int(x, 16) for x in f['asked'].split(':')[:4]]; i0 = [int(x, 16) for x in f['init'].split(':')[:4]]
        kept = [a[0] & 0x7fffffff, a[1], (a[2] & ~(0x20000000 | CSIZE | PARENB)) | CS8 | T.CREAD, a[3]]
        notkept = (a[2] & (PARENB | T.CREAD)) != (kept[2] & (PARENB | T.CREAD)) or ((a[2] & CSIZE) != 0 and (a[2] & CSIZE) != (kept[2] & CSIZE))
        if kept == i0 and notkept:
            st['tcsetattr refused by the pty (size/parity not kept, nothing else to change)'] += 1; return
    if res != '1':
        V.append(dict(sig='C09 serial: a valid character format is refused', detail='%r: res=%s err=%s' % (p, res, f.get('err')), op=op[:300])); return
    a = f['asked'].split(':')
    iflag, oflag, cflag, lflag = (int(x, 16) for x in a[:4])
    isp, osp = int(a[6]), int(a[7])
    if int(a[4]) != BAUDS[baud] or int(a[5]) != BAUDS[baud]: what_speed = 'c_ispeed/c_ospeed members %s/%s, B%d = %d' % (a[4], a[5], baud, BAUDS[baud])
    else: what_speed = None
    what = [what_speed] if what_speed else []
    if osp != BAUDS[baud] or isp != BAUDS[baud] or (cflag & CBAUD) != BAUDS[baud]: what.append('speed %d asked, constants %d/%d set (B%d = %d)' % (baud, isp, osp, baud, BAUDS[baud]))
    if (cflag & CSIZE) != (CS7 if db == 7 else CS8): what.append('%d data bits asked, CSIZE bits %o' % (db, cflag & CSIZE))
    if bool(cflag & CSTOPB) != (sb == 2): what.append('%d stop bits asked, CSTOPB %s' % (sb, 'set' if cflag & CSTOPB else 'clear'))
    pc = chr(par).lower()
    if bool(cflag & PARENB) != (pc != 'n') or (pc != 'n' and bool(cflag & PARODD) != (pc == 'o')): what.append('parity %s asked, PARENB %d PARODD %d' % (pc, bool(cflag & PARENB), bool(cflag & PARODD)))
    if what: V.append(dict(sig='C09 serial: the character format set is not the one asked for', detail='; '.join(what), op=op[:300]))
    if f.get('nonblock') != '1': V.append(dict(sig='C09 serial: the descriptor is left blocking', op=op[:300]))
    sent_out, sent_in = unhx(w[13]), unhx(w[14])
    got_out, got_in, echo = unhx(f.get('out', '-')), unhx(f.get('in', '-')), unhx(f.get('echo', '-'))
    st['bytes through the kernel'] += len(sent_out) + len(sent_in)
    if got_out != sent_out:
        V.append(dict(sig='C09 serial: bytes the daemon writes do not reach the device unaltered', detail=describe(sent_out, got_out) + '; settings asked of tcsetattr: iflag=%x oflag=%x cflag=%x lflag=%x' % (iflag, oflag, cflag, lflag), op=op[:300]))
    if got_in != sent_in:
        V.append(dict(sig='C09 serial: bytes the device sends do not reach the daemon unaltered', detail=describe(sent_in, got_in) + '; settings asked of tcsetattr: iflag=%x oflag=%x cflag=%x lflag=%x' % (iflag, oflag, cflag, lflag), op=op[:300]))
    if echo:
        V.append(dict(sig='C09 serial: the tty echoes device output back to the device', detail='%d bytes echoed: %s' % (len(echo), echo[:16].hex(' ')), op=op[:300]))
    if sent_in and f.get('poll') != '1':
        # nothing is lost or altered (the bytes are there for read()), but the daemon waits in poll(): it would never see them
        V.append(dict(sig='C09 serial: poll silent with bytes queued', detail='%d bytes queued; settings asked of tcsetattr: VMIN=%s VTIME=%s; read back: %s' % (len(sent_in), a[8], a[9], f.get('back')), op=op[:300]))
    elif sent_in and vmin_hostile(w): st['poll() readable with bytes queued although the previous settings had VMIN > 1, VTIME = 0'] += 1


def vmin_hostile(w):
    """the initial state of the S op had VMIN > 1 and VTIME = 0"""
    if w[1] != '1' or w[6] == '-': return False
    cc = unhx(w[6])
    return len(cc) >= 15 and cc[6] > 1 and cc[5] == 0


def compare(op, c, l):
    fc, fl = fields(c), fields(l)
    backlog = int(fl.pop('backlog', '0'))
    if backlog >= 256:
        # outside the domain the echo model is validated in (Pm.Serial.echoBacklog): the kernel processes echoes in mid-piece
        fc.pop('echo', None); fl.pop('echo', None)
    if fc == fl: return None
    for k in list(fc) + [k for k in fl if k not in fc]:
        if fc.get(k) != fl.get(k):
            return dict(kind='answer-differs', field=k, op=op[:400], c='%s=%s' % (k, (fc.get(k) or '')[:300]), lean='%s=%s' % (k, (fl.get(k) or '')[:300]),
                        lines=[dict(c='%s %s=%s' % (op[0], k, fc.get(k)), lean='%s %s=%s' % (op[0], k, fl.get(k)))])
    return dict(kind='answer-differs', field='?', op=op[:400], c=c[:300], lean=l[:300])


def run_ops(ops):
    binary = build()
    l_out = run_lean(ops)
    c_out, rc, err = run_c(binary, with_hints(ops, l_out))
    diffs = []; V = []; st = collections.Counter()
    for i in range(min(len(c_out), len(ops))):
        d = compare(ops[i], c_out[i], l_out[i])
        if d:
            d['at'] = i; d['replay'] = dict(layer='serial', ops=[ops[i]])
            st['disagreement in field ' + d['field']] += 1
            if len(diffs) < 5: diffs.append(d)
        n0 = len(V)
        check_props(ops[i], c_out[i], V, st)
        for v in V[n0:]: v['at'] = i; v['replay'] = dict(layer='serial', ops=[ops[i]])
        st['op ' + ops[i][0]] += 1
        if ops[i][0] == 'T' and int(fields(l_out[i]).get('backlog', '0')) >= 256: st['T: echo not compared (backlog of 256 bytes and more: outside the validated domain)'] += 1
    if rc != 0 or len(c_out) < len(ops):
        i = len(c_out)
        diffs.append(dict(at=i, kind='death-not-predicted', op=(ops[i] if i < len(ops) else '')[:400], stderr=err[-1500:], replay=dict(layer='serial', ops=ops[i:i + 1])))
        V.append(dict(sig='C09 serial: the real code died', at=i, op=(ops[i] if i < len(ops) else '')[:400], detail=err[-1200:], replay=dict(layer='serial', ops=ops[i:i + 1])))
    return c_out, l_out, diffs, V, st


def one(args):
    seed, n = args
    ops = gen_ops(seed, n)
    c_out, l_out, diffs, V, st = run_ops(ops)
    for d in diffs: d['replay'].update(seed=seed, n=n)
    sample = dict(seed=seed, ops=[o[:160] for o in ops[:3]], answers=[a[:260] for a in c_out[:3]])
    return dict(n=len(c_out), distinct=len(set(ops)), diffs=diffs, violations=V[:20], stats=st, sample=sample)


class SerialLayer:
    name = 'serial'

    def __init__(self, quick=(16, 250), thorough=(128, 1500)):
        self.quick = quick; self.thorough = thorough

    def build(self):
        build(); driver()

    def run(self, prop, tier, seed):
        ns, n = self.quick if tier == 'quick' else self.thorough if tier == 'thorough' else (self.quick[0] * 4, self.quick[1])
        self.build()
        rs = pmap(one, [(seed * 6007 + k * 15485863 + 5, n) for k in range(ns)])
        st = collections.Counter()
        for r in rs: st.update(r['stats'])
        return dict(name=self.name, evaluations=sum(r['n'] for r in rs), distinct=sum(r['distinct'] for r in rs), samples=[rs[0]['sample']],
                    stats=dict(sorted(st.items())), diffs=[d for r in rs for d in r['diffs']], violations=[v for r in rs for v in r['violations']],
                    rule='one evaluation = one op on a fresh pseudo-terminal.  S: the slave in a drawn termios state (cooked, or random flag words / control characters / VMIN / VTIME), '
                         'the real serial_connect (flags strings: valid, partial, blank, signed, overflowing, junk) or _serial_setup (valid and invalid parameters), the termios it hands to tcsetattr, '
                         'the kernel\'s read-back, then every byte value plus CR LF TAB XON XOFF ^C DEL NUL 0xff in random order through the kernel both ways; compared field by field with the Lean model.  '
                         'T: the tty model (ttyOut / ttyIn / pollReadable) against the kernel in a random termios state inside Pm.Serial.validated, data weighted towards the control characters; distinct = distinct op lines')

    def replay(self, rp, v):
        ops = rp.get('ops') or gen_ops(rp['seed'], rp['n'])
        c_out, l_out, diffs, V, st = run_ops(ops)
        for o, c, l in list(zip(ops, c_out, l_out))[-6:]:
            print(o[:600]); print(' C:   ', c[:1500]); print(' Lean:', l[:1500])
        for d in diffs[:5]: print('DIFF', {k: x for k, x in d.items() if k not in ('replay', 'lines')})
        for x in V[:5]: print('PREDICATE', {k: y for k, y in x.items() if k != 'replay'})
        return 1 if (V or diffs) else 0
