"""list correspondence: the real liblsd/list.c (harness/u_list.c: list.c included, assertions on, ASan+UBSan) vs the node-level
Lean model Pm/LsdList.lean (driver lldriver = lean/LlMain.lean), op by op, complete state after every op (return values,
count, the items walked from head, whether tail is the address of the final NULL, the length of the node free list, and for
every registered iterator - in chain order - which `next` field its `prev` is and whether `pos` is the node behind that field
or the one after);
plus predicates evaluated on the C side's own answers only:
 * a plain Python list must equal the items after every op (append/enqueue at the end, prepend/push at the front, pop/dequeue
   take the front, delete_all removes exactly the matching items and counts them, find_first / for_each / peek / count,
   sort is a permutation - and the stable sort whenever the comparison is a total preorder);
 * the documented iterator semantics on item identity (items are unique numbers): what list_next returns is in the list at
   that moment, was never returned by this iterator since its creation / reset, lies behind nothing it has already returned,
   and does not skip an item that has been in the list since the creation / reset; NULL only when no such item is left;
   list_remove / list_delete return the item last returned or nothing; list_insert puts the item right before the item
   last returned;
 * the list-with-cursors machine (the abstract machine that the theorems of Pm/Props/C10.lean section 5 prove the node-level
   model refines) re-implemented here on a plain list: every iterator is a cursor (j, g); the C side must agree with it;
 * structure: count = number of items, tail ok, every iterator has a place, live + free nodes = 32 * chunks (no node leaks).

The op generator is steered by the real code's state (the C process is driven interactively): removal of the node an iterator
points at / has just returned / will return next, by another iterator, by pop and by delete_all; insertion at, before and
behind iterators; several iterators on one node; iterators at the end and on the empty list; sort under live iterators;
destroy of iterators in any order; list_destroy with live iterators and re-creation (node reuse through the free list);
growth across the 32-node chunks.

    python3 lib/listlayer.py [seed]     quick self-test from the project root
"""
import collections, functools, os, random, select, subprocess, sys, tempfile
sys.path.insert(0, os.path.dirname(os.path.abspath(__file__)))
from common import *

MAXIT = 12
_driver_built = False


def build():
    global _driver_built
    if not _driver_built:
        ok, out = lake_build(('lldriver',))
        if not ok: raise BuildError('lake build lldriver failed:\n' + out[-3000:])
        _driver_built = True
    return cc('u_list', ['u_list.c'], san=True)


# ---------------------------------------------------------------- the comparison functions of the S op (as in u_list.c / LlMain.lean)

def cmp_of(kind, a, b):
    if kind == 0: return lambda x, y: x - y
    if kind == 1: return lambda x, y: y - x
    if kind == 2: return lambda x, y: x % (a + 1) - y % (a + 1)
    if kind == 3: return lambda x, y: (x * a + y * b + x * y) % 7 - 3
    if kind == 4: return lambda x, y: a - 1
    return lambda x, y: (x // (a + 1)) % (b + 1) - (y // (a + 1)) % (b + 1)


def is_preorder(kind, a, b):
    return kind in (0, 1, 2) or kind >= 5 or (kind == 4 and a == 1)


# ---------------------------------------------------------------- the list-with-cursors machine (abstract reference)

class Ref:
    """items: a plain list; its: handle -> [j, g]  (the cursor stands at the j-th gap of the list; g = 1: the item right
    after the cursor has been returned and can be removed, the next one to return is the one after it)"""

    def __init__(self, fdel):
        self.items = []; self.its = collections.OrderedDict(); self.fdel = fdel

    def create_at(self, f, x):
        self.items.insert(f, x)
        for c in self.its.values():
            if c[0] >= f: c[0] += 1

    def destroy_at(self, f):
        v = self.items.pop(f)
        for c in self.its.values():
            if c[0] + c[1] == f or c[0] == f: c[0] = f; c[1] = 0
            elif c[0] > f: c[0] -= 1
        return v

    def next(self, k):
        c = self.its[k]; p = c[0] + c[1]; n = len(self.items)
        if p < n:
            v = self.items[p]
            if c[1]: c[0] += 1
            c[1] = 1
            return v
        if c[1]: c[0] += 1; c[1] = 0
        return 0

    def remove(self, k):
        c = self.its[k]
        return self.destroy_at(c[0]) if c[1] else 0

    def delete_all(self, pred):
        n = 0; f = 0; dl = []
        while f < len(self.items):
            if pred(self.items[f]): dl.append(self.destroy_at(f)); n += 1
            else: f += 1
        return n, dl

    def sort(self, cmp):
        if len(self.items) > 1:
            done = [self.items[0]]
            for x in self.items[1:]:
                if cmp(x, done[-1]) < 0:
                    p = 0
                    while cmp(x, done[p]) >= 0: p += 1
                    done.insert(p, x)
                else: done.append(x)
            self.items = done
            for c in self.its.values(): c[0] = 0; c[1] = 0


# ---------------------------------------------------------------- configurations and steering

def pick_cfg(R, k):
    """(kind, target length, number of ops)"""
    kind = ['small', 'small', 'medium', 'queue', 'small', 'chunk', 'medium', 'big'][k % 8]
    return kind, dict(small=5, medium=14, queue=6, chunk=40, big=150)[kind], dict(small=500, medium=450, queue=500, chunk=400, big=260)[kind]


class Steer:
    def __init__(self, R, kind, target):
        self.R = R; self.kind = kind; self.target = target; self.nextid = 1; self.grow = True

    def fresh(self):
        R = self.R
        x = self.nextid; self.nextid += R.choice([1, 1, 1, 2, 3, 7])
        return x

    def pred(self, items):
        """a predicate x % m == r aimed at the items present: one item, several, all, none"""
        R = self.R
        c = R.random()
        big = self.kind in ('chunk', 'big') and len(items) < self.target * 2
        if not items or c < 0.1: return R.choice([2, 3, 5, 1000003] if not big else [7, 11, 1000003]), R.choice([0, 1, 2])
        if c < (0.2 if not big else 0.11): return 1, 0                      # everything
        if c < 0.5 or big and c < 0.9:
            x = R.choice(items); return 1000003, x % 1000003                 # exactly that item (ids are below the modulus)
        m = R.choice([2, 2, 3, 3, 4, 5]); return m, R.choice(items) % m

    def next(self, count, items, places, its):
        """places: handle -> (j, g) or None; its: handles in use"""
        R = self.R
        if R.random() < 0.05: self.grow = not self.grow
        if count > self.target * 2: self.grow = False
        if count < max(1, self.target // 3) and R.random() < 0.3: self.grow = True
        live = list(its)
        r = R.random()
        # ---- iterator management
        if (len(live) < 2 and r < 0.12) or r < 0.035:
            free = [k for k in range(MAXIT) if k not in its]
            if free: return 'I %d' % R.choice(free[:4])
        if live and r < 0.05: return 'X %d' % R.choice(live)
        if live and r < 0.07: return 'R %d' % R.choice(live)
        # ---- iterator steps (the bulk)
        if live and r < 0.55:
            k = R.choice(live); c = R.random()
            if self.kind == 'big' and c < 0.5: return 'n %d' % k
            if c < 0.42: return 'n %d' % k
            if c < 0.60: return ('r %d' if R.random() < 0.6 else 'd %d') % k
            if c < 0.78: return 'i %d %d' % (k, self.fresh())
            if c < 0.86:
                m, rr = self.pred(items); return 'f %d %d %d' % (k, m, rr)
            # aim another iterator at the same node, or step it to just before / onto this one's node
            o = R.choice(live)
            return 'n %d' % o
        # ---- aimed removals: the node an iterator stands on / has returned / will return, through the list API
        if live and items and r < 0.63:
            k = R.choice(live); pl = places.get(k)
            if pl:
                j, g = pl
                idx = R.choice([j, j + g, j + g + 1, j - 1])
                if 0 <= idx < len(items): return 'D 1000003 %d' % (items[idx] % 1000003)
                if idx == 0 or R.random() < 0.3: return R.choice(['O', 'Q'])
        # ---- list mutations
        pa = (0.6 if self.grow else 0.25) if self.kind not in ('chunk', 'big') else (0.85 if self.grow else 0.3)
        if R.random() < pa:
            op = R.choice(['A', 'A', 'E', 'P', 'U']) if self.kind != 'queue' else R.choice(['E', 'E', 'E', 'A', 'P'])
            return '%s %d' % (op, self.fresh())
        c = R.random()
        if c < 0.30: return R.choice(['O', 'Q']) if self.kind != 'queue' else 'Q'
        if c < 0.42:
            m, rr = self.pred(items); return 'D %d %d' % (m, rr)
        if c < 0.52:
            m, rr = self.pred(items); return 'F %d %d' % (m, rr)
        if c < 0.60:
            m, rr = self.pred(items); return 'H %d %d' % (m, rr)
        if c < 0.68: return 'K'
        if c < 0.76: return 'Y'
        if c < 0.975 or self.kind in ('chunk', 'big') and c < 0.99:
            kind = R.choice([0, 0, 1, 2, 2, 3, 3, 4, 5, 5])
            return 'S %d %d %d' % (kind, R.choice([0, 1, 2, 3, 5]), R.choice([0, 1, 2, 4]))
        return 'N %d' % R.choice([0, 1])


# ---------------------------------------------------------------- running the two sides

class CSide:
    limit = 30

    def __init__(self, binary):
        self.hung = False
        self.err = tempfile.TemporaryFile()
        self.p = subprocess.Popen([binary], stdin=subprocess.PIPE, stdout=subprocess.PIPE, stderr=self.err, env=ASAN_ENV)

    def ask(self, op):
        try:
            self.p.stdin.write(op.encode() + b'\n'); self.p.stdin.flush()
            rd, _, _ = select.select([self.p.stdout], [], [], self.limit)
            if not rd:
                self.hung = True; self.p.kill(); return None
            l = self.p.stdout.readline()
        except (BrokenPipeError, OSError):
            return None
        if not l.endswith(b'\n'): return None
        return l[:-1].decode()

    def close(self):
        try: self.p.stdin.close()
        except Exception: pass
        try: self.p.wait(timeout=20)
        except subprocess.TimeoutExpired: self.p.kill(); self.p.wait()
        self.err.seek(0); e = self.err.read().decode('latin1'); self.err.close()
        self.p.stdout.close()
        if self.hung: e += '\nHUNG: no answer within %d s; the process was killed\n' % self.limit
        return self.p.returncode, e


def lean_side(ops, limit=300):
    try:
        r = subprocess.run([os.path.join(LEANBIN, 'lldriver')], input=('\n'.join(ops) + '\n').encode(), capture_output=True, timeout=limit)
        out = r.stdout.decode().split('\n')[:-1]; err = r.stderr.decode('latin1')
    except subprocess.TimeoutExpired as e:
        out = (e.stdout or b'').decode().split('\n')[:-1]; err = 'HUNG'
    return out, err


def parse(ans):
    """'n 3 | 4 | 7 1 3 9 | 1 | 28 | 1:2:1 0:4:0' -> (['n','3'], dict(count, items, tail, free, its=[(k, (j, g) | None)]))"""
    p = ans.split(' | ')
    if len(p) != 6: return p[0].split(' '), None
    items = [] if p[2] == '-' else [int(x) for x in p[2].split(' ')]
    its = []
    if p[5] != '-':
        for w in p[5].split(' '):
            q = w.split(':')
            its.append((int(q[0]), (int(q[1]), int(q[2])) if len(q) == 3 else None))
    return p[0].split(' '), dict(count=int(p[1]), items=items, tail=int(p[3]), free=int(p[4]), its=its)


def gen_and_run_c(seed, k, fixed_ops=None):
    R = random.Random(seed)
    kind, target, nops = pick_cfg(R, k)
    C = CSide(build())
    ops = []; outs = []
    S = Steer(R, kind, target)
    first = 'N %d' % R.choice([0, 1, 1])
    seq = iter(fixed_ops) if fixed_ops is not None else None
    op = next(seq) if seq else first
    st = None
    while op is not None:
        a = C.ask(op)
        ops.append(op)
        if a is None: break
        outs.append(a)
        _, s = parse(a)
        if s is not None: st = s
        if seq is not None: op = next(seq, None); continue
        if len(ops) > nops: break
        if st is None: op = first; continue
        op = S.next(st['count'], st['items'], dict(st['its']), [x[0] for x in st['its']])
    rc, err = C.close()
    return (kind, target), ops, outs, rc, err


# ---------------------------------------------------------------- predicates on the C side's own answers

class ItDoc:
    """what the documentation lets one say about one iterator, on item identity"""
    def __init__(self, q):
        self.returned = set(); self.must = set(q); self.last = None


def check_props(ops, outs, V, st):
    q = []; ref = None; doc = {}; fdel = 0; chunks = 0; prev = None
    def bad(sig, i, **kw):
        V.append(dict(sig='C10 list: ' + sig, at=i, op=ops[i][:120], answer=outs[i][:200], **kw))
    for i, (op, out) in enumerate(zip(ops, outs)):
        w = op.split(' '); k = w[0]
        a, s = parse(out)
        st['op ' + {'A': 'append', 'P': 'prepend', 'U': 'push', 'E': 'enqueue', 'O': 'pop', 'Q': 'dequeue', 'K': 'peek', 'Y': 'is_empty/count', 'F': 'find_first',
                    'D': 'delete_all', 'H': 'for_each', 'S': 'sort', 'I': 'iterator_create', 'R': 'iterator_reset', 'X': 'iterator_destroy', 'n': 'next', 'i': 'insert',
                    'f': 'find', 'r': 'remove', 'd': 'delete', 'N': 'create (after destroy)'}.get(k, k)] += 1
        if a[0] == 'ASSERT': bad('the model says an assertion fires', i); return
        if s is None:
            bad('the chain from head does not end (BROKEN) / unparsable answer', i); return
        items = s['items']; n_before = len(q); before = list(q)
        args = [int(x) for x in w[1:]]
        res = [int(x) for x in a[1:] if x != '-']
        itsnow = collections.OrderedDict(s['its'])
        # ---- structure, from the struct fields alone
        if s['count'] != len(items): bad('count differs from the number of nodes on the chain', i)
        if s['tail'] != 1: bad('tail is not the address of the final NULL', i)
        for kk, pl in s['its']:
            if pl is None: bad('an iterator has no place on the chain (prev / pos point elsewhere)', i, iterator=kk)
        if len(set(items)) != len(items): bad('an item occurs twice on the chain', i)
        if (s['free'] + s['count']) % 32 != 0: bad('live + free nodes is not a multiple of the chunk size (a node leaked or is on both lists)', i)
        if k != 'N' and prev is not None:
            tot = s['free'] + s['count']; ptot = prev['free'] + prev['count']
            if tot < ptot: bad('nodes lost', i)
            if tot > ptot:
                st['chunk of 32 nodes allocated'] += 1
                if prev['free'] != 0: bad('a chunk was allocated although free nodes were left', i)
        # ---- the call, on the plain list and on the cursors
        if k == 'N':
            # list_destroy of the old list calls fDel on every item, in order; the iterators die with it
            if ref is not None:
                want = list(q) if fdel else []
                if res != want: bad('list_destroy: the deletion function was not called on exactly the items, in order', i, want=want[:20])
                if ref.its: st['list_destroy with live iterators'] += 1
                st['create after destroy'] += 1
            fdel = args[0]; q = []; ref = Ref(fdel); doc = {}
            st['create: %s deletion function' % ('with' if fdel else 'without')] += 1
        elif k in ('A', 'E', 'P', 'U'):
            x = args[0]
            if res != [x]: bad('insertion does not return the item', i)
            if k in ('A', 'E'): q.append(x); ref.create_at(len(ref.items), x)
            else: q.insert(0, x); ref.create_at(0, x)
            for kk, c in ref.its.items():
                d = doc[kk]
                if k in ('A', 'E'):
                    if c[0] + c[1] <= len(q) - 1: d.must.add(x); st['append ahead of an iterator (will be returned)'] += 1
                    else: st['append behind an iterator that is at the end / was created on the empty list (not returned)'] += 1
                else:
                    st['prepend behind an iterator'] += 1
        elif k in ('O', 'Q'):
            want = q.pop(0) if q else 0
            if res != [want]: bad('pop / dequeue does not return the first item', i, want=want)
            if ref.items:
                for kk, c in ref.its.items():
                    if c[0] == 0 and c[1] == 1: st['pop removes the item an iterator returned last'] += 1
                    elif c[0] + c[1] == 0: st['pop removes the item an iterator would return next'] += 1
                ref.destroy_at(0)
            else: st['pop / dequeue on the empty list'] += 1
        elif k == 'K':
            if res != [q[0] if q else 0]: bad('peek is not the first item', i)
        elif k == 'Y':
            if res != [1 if not q else 0, len(q)]: bad('is_empty / count', i)
        elif k == 'F':
            m, r = args; want = next((x for x in q if x % m == r), 0)
            if res != [want]: bad('find_first is not the first matching item', i, want=want)
            st['find_first: %s' % ('found' if want else 'nothing')] += 1
        elif k == 'H':
            m, r = args; pos = next((j for j, x in enumerate(q) if x % m == r), None)
            want = -(pos + 1) if pos is not None else len(q)
            if res != [want]: bad('for_each count', i, want=want)
        elif k == 'D':
            m, r = args; gone = [x for x in q if x % m == r]
            for kk, c in ref.its.items():
                p = c[0] + c[1]
                if c[1] and ref.items[c[0]] in gone: st['delete_all removes the item an iterator returned last'] += 1
                if p < len(q) and q[p] in gone: st['delete_all removes the item an iterator would return next'] += 1
            q = [x for x in q if x % m != r]
            if res[:1] != [len(gone)]: bad('delete_all does not return the number of matching items', i, want=len(gone))
            if res[1:] != (gone if fdel else []): bad('delete_all: the deletion function was not called on exactly the removed items', i, want=gone[:20])
            ref.delete_all(lambda x: x % m == r)
            st['delete_all: %s' % ('nothing' if not gone else 'everything' if not q else 'one' if len(gone) == 1 else 'several')] += 1
        elif k == 'S':
            kind, ca, cb = args; cmp = cmp_of(kind, ca, cb)
            if sorted(items) != sorted(q): bad('sort is not a permutation', i)
            if is_preorder(kind, ca, cb):
                want = sorted(q, key=functools.cmp_to_key(cmp))
                if items != want: bad('sort: not the stable sort by the comparison', i, want=want[:20])
                st['sort: total preorder%s' % (' with ties' if kind in (2, 4) or kind >= 5 else '')] += 1
            else: st['sort: inconsistent comparison'] += 1
            if len(q) > 1 and ref.its: st['sort under live iterators (all reset)'] += 1
            ref.sort(cmp); q = list(ref.items)
            if len(q) > 1:
                for kk in doc: doc[kk] = ItDoc(q)
        elif k == 'I':
            kk = args[0]; ref.its[kk] = [0, 0]; ref.its.move_to_end(kk, last=False); doc[kk] = ItDoc(q)
            if not q: st['iterator created on the empty list'] += 1
        elif k == 'R':
            kk = args[0]; ref.its[kk] = [0, 0]; doc[kk] = ItDoc(q)
        elif k == 'X':
            kk = args[0]; del ref.its[kk]; del doc[kk]
        elif k in ('n', 'f'):
            kk = args[0]; d = doc[kk]
            if k == 'n': wantseq = [ref.next(kk)]
            else:
                m, r = args[1:]; wantseq = []
                while True:
                    v = ref.next(kk); wantseq.append(v)
                    if v == 0 or v % m == r: break
            v = res[0] if res else None
            if v != wantseq[-1]: bad('list_next / list_find differs from the list with cursors', i, want=wantseq[-1])
            # the documented semantics, on identity (list_find: every item it stepped over counts as returned)
            seq = wantseq if v == wantseq[-1] else [v]
            for u in seq:
                if u:
                    if u not in q: bad('an iterator returned an item that is not in the list', i, item=u)
                    elif u in d.returned: bad('an iterator returned an item twice', i, item=u)
                    else:
                        iu = q.index(u)
                        if any(x in d.returned for x in q[iu + 1:]): bad('an iterator went backwards', i, item=u)
                        sk = [x for x in q[:iu] if x in d.must]
                        if sk: bad('an iterator skipped an item that has been in the list since the iterator was created / reset', i, skipped=sk[:5])
                    d.returned.add(u); d.must.discard(u); d.last = u
                else:
                    if d.must & set(q): bad('an iterator reached the end although an item that has been there since its creation / reset was never returned', i, left=sorted(d.must & set(q))[:5])
                    st['iterator at the end (NULL)'] += 1
            if k == 'f': st['list_find: %s' % ('found' if v else 'end')] += 1
        elif k == 'i':
            kk, x = args; c = ref.its[kk]; d = doc[kk]
            if res != [x]: bad('insertion does not return the item', i)
            # documented: immediately before the item last returned; at the end once the end has been reached
            if c[1]:
                lastidx = c[0]
                if d.last is not None and ref.items[lastidx] == d.last: st['insert: before the item last returned'] += 1
                else: st['insert: cursor has an item to remove that is not the last one returned'] += 1
            elif d.last is not None and d.last in q:
                st['insert: after the item last returned (an item next to it was removed meanwhile: as coded)'] += 1
            elif c[0] == len(q): st['insert: at the end'] += 1
            else: st['insert: nothing returned yet / last item gone (before the next item)'] += 1
            f = c[0]
            q.insert(f, x); ref.create_at(f, x)
            for k2, c2 in ref.its.items():
                if c2[0] + c2[1] <= f and k2 != kk: doc[k2].must.add(x)
        elif k in ('r', 'd'):
            kk = args[0]; c = ref.its[kk]; d = doc[kk]
            want = ref.items[c[0]] if c[1] else 0
            if k == 'r': got = res[0] if res else None
            else:
                got = want if res[:1] == [1] else 0 if res[:1] == [0] else None
                if res[1:] != ([want] if want and fdel else []): bad('list_delete: the deletion function was not called on exactly the removed item', i)
            if got != want: bad('list_remove / list_delete differs from the list with cursors', i, want=want)
            if got:
                if got != d.last: bad('list_remove removed an item that is not the one this iterator returned last', i, last=d.last)
                st['remove: the item last returned'] += 1
                for k2, c2 in ref.its.items():
                    if k2 != kk and c2[0] + c2[1] == c[0]: st['remove of the item another iterator would return next'] += 1
                    if k2 != kk and c2[1] and c2[0] == c[0]: st['remove of the item another iterator returned last too'] += 1
            else:
                if d.last is not None and d.last in q: st['remove: nothing, although the item last returned is still in the list (the item after it was removed meanwhile: as coded)'] += 1
                else: st['remove: nothing to remove'] += 1
            if want: q.remove(want); ref.remove(kk)
        # ---- the plain list and the cursors against the real state
        if q != items:
            j = next((x for x in range(min(len(q), len(items))) if q[x] != items[x]), min(len(q), len(items)))
            bad('the items differ from a plain list', i, want=q[max(0, j - 3):j + 6], got=items[max(0, j - 3):j + 6], first_difference=j)
            q = list(items); ref.items = list(items)
        if ref.items != q: bad('internal: reference machines disagree', i)
        cur = [(kk, tuple(c)) for kk, c in ref.its.items()]
        if cur != [(kk, pl) for kk, pl in s['its']]:
            bad('iterator places differ from the list with cursors', i, want=cur[:6], got=s['its'][:6])
            for kk, pl in s['its']:
                if pl and kk in ref.its: ref.its[kk] = list(pl)
        for kk, c in ref.its.items():
            if c[0] + c[1] == len(q) and q: st['state: an iterator at the end of a non-empty list'] += 1
            if c[1] == 1: st['state: an iterator with an item to remove'] += 1
        pls = [tuple(c) for c in ref.its.values()]
        if len(pls) > 1 and len(set(p[0] + p[1] for p in pls)) < len(pls): st['state: several iterators about to return the same item'] += 1
        if k in ('K', 'Y', 'F', 'H') and prev is not None and s != prev: bad('a read-only call changed the list', i)
        if len(q) > 32: st['state: more than one chunk of nodes in use'] += 1
        st['state: %s items' % ('0' if not q else '1' if len(q) == 1 else '2..7' if len(q) < 8 else '8..32' if len(q) <= 32 else '33..100' if len(q) <= 100 else 'more than 100')] += 1
        prev = s


def one(args):
    seed, k = args[:2]
    fixed = args[2] if len(args) > 2 else None
    cfg, ops, c_out, rc, err = gen_and_run_c(seed, k, fixed)
    l_out, lerr = lean_side(ops)
    diffs = []; V = []; st = collections.Counter()
    died = rc != 0 or len(c_out) < len(ops)
    m = min(len(c_out), len(l_out))
    for i in range(m):
        if c_out[i] != l_out[i]:
            diffs.append(dict(at=i, kind='answer-differs', op=ops[i][:200], c=c_out[i][:300], lean=l_out[i][:300], history=[o[:80] for o in ops[max(0, i - 8):i]],
                              lines=[dict(c=c_out[i][:300], lean=l_out[i][:300])]))
            break
    if len(l_out) < len(c_out) and not diffs:
        diffs.append(dict(at=len(l_out), kind='model-did-not-answer', op=ops[len(l_out)][:200], stderr=lerr[-600:]))
    if died:
        i = len(c_out)
        pred = i < len(l_out) and l_out[i].startswith('ASSERT')
        st['runs ended by a death of the real code'] += 1
        cls = 'hang' if 'HUNG' in err else 'assertion' if 'Assertion' in err else 'sanitizer' if 'Sanitizer' in err or 'runtime error' in err else 'death'
        V.append(dict(sig='C10 list: real code died (%s)%s' % (cls, ' - predicted by the model' if pred else ''), at=i, op=ops[i][:200] if i < len(ops) else '', detail=err[-1500:],
                      history=[o[:80] for o in ops[max(0, i - 8):i]]))
        if not pred: diffs.append(dict(at=i, kind='death-not-predicted', stderr=err[-1200:], op=ops[i][:200] if i < len(ops) else ''))
    try:
        check_props(ops[:len(c_out)], c_out, V, st)
    except Exception as e:
        import traceback
        V.append(dict(sig='predicate crashed: %r' % e, detail=traceback.format_exc()[-1200:]))
    for v in V:
        at = v.get('at', 0)
        v['replay'] = dict(layer='list', seed=seed, k=k, ops=ops[:at + 1], at=at)
    for d in diffs: d['replay'] = dict(layer='list', seed=seed, k=k, at=d['at'])
    distinct = len(set(zip(ops, c_out)))
    sample = dict(seed=seed, config=cfg, ops=ops[:16], answers=[a[:100] for a in c_out[:16]])
    return dict(n=len(c_out), distinct=distinct, diffs=diffs, violations=V, stats=st, sample=sample)


class ListLayer:
    name = 'list'

    def __init__(self, quick=24, thorough=512):
        self.quick = quick; self.thorough = thorough

    def build(self):
        build()

    def run(self, prop, tier, seed):
        ns = self.quick if tier == 'quick' else self.thorough if tier == 'thorough' else self.quick * 4
        self.build()
        rs = pmap(one, [(seed * 15485863 + k * 32452843 + 29, k) for k in range(ns)])
        st = collections.Counter()
        for r in rs: st.update(r['stats'])
        return dict(name=self.name, evaluations=sum(r['n'] for r in rs), distinct=sum(r['distinct'] for r in rs), samples=[rs[0]['sample'], rs[min(3, len(rs) - 1)]['sample']],
                    stats=dict(sorted(st.items())), diffs=[d for r in rs for d in r['diffs']], violations=[v for r in rs for v in r['violations']],
                    rule='one evaluation = one list API call on the real list.c (create after destroy / append prepend push enqueue / pop dequeue peek / count / find_first / '
                         'delete_all / for_each / sort with consistent and inconsistent comparisons / iterator create reset destroy / next insert find remove delete, up to %d '
                         'iterators alive at once), followed by the complete state (count, the items walked from head, tail, free-list length, every iterator\'s place), compared '
                         'answer by answer with the node-level Lean model; %d runs: short lists with dense iterator traffic, FIFO queues, lists across the 32-node chunks, long '
                         'lists; ops steered by the real state to the nodes iterators stand on; distinct = distinct (op, answer) pairs per run' % (MAXIT, ns))

    def replay(self, rp, v):
        cfg, ops, c_out, rc, err = gen_and_run_c(rp['seed'], rp['k'], rp.get('ops'))
        l_out, lerr = lean_side(ops)
        at = rp.get('at', len(ops) - 1)
        print('configuration', cfg)
        for j in range(max(0, at - 12), min(len(ops), at + 2)):
            print(ops[j][:160]); print('   C   :', c_out[j][:300] if j < len(c_out) else '<dead>'); print('   Lean:', l_out[j][:300] if j < len(l_out) else '<none>')
        if rc != 0: print(err[-1500:])
        V = []; st = collections.Counter(); check_props(ops[:len(c_out)], c_out, V, st)
        for x in V[:5]: print('PREDICATE', json.dumps(x, default=str)[:900])
        bad = bool(V) or rc != 0 or c_out != l_out[:len(c_out)]
        return 1 if bad else 0


if __name__ == '__main__':
    seed = int(sys.argv[1]) if len(sys.argv) > 1 else 1
    t0 = time.time()
    L = ListLayer()
    r = L.run('C10', 'quick', seed)
    for k2, v in r['stats'].items(): print('%8d  %s' % (v, k2))
    print('evaluations %d, distinct %d, disagreements %d, predicate violations %d, %.1fs' % (r['evaluations'], r['distinct'], len(r['diffs']), len(r['violations']), time.time() - t0))
    for d in r['diffs'][:3]: print('DIFF', json.dumps(d, default=str)[:1500])
    for v in r['violations'][:3]: print('VIOLATION', json.dumps({a: b for a, b in v.items() if a != 'replay'}, default=str)[:1500])
    sys.exit(1 if r['diffs'] or r['violations'] else 0)
