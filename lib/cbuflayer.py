"""cbuf correspondence: the real liblsd/cbuf.c (harness/u_cbuf.c: cbuf.c included, read()/write() scripted, assertions on,
ASan+UBSan) vs the index-level Lean model Pm/CbufRing.lean (driver cbdriver = lean/CbMain.lean), op by op, complete state
after every op (return values, size alloc used i_in i_out i_rep got_wrap, unread bytes in order);
plus C09 predicates evaluated on the C side's own answers only: a plain Python byte queue with the documented overwrite rule
must equal the unread bytes after every op, what read_to_fd / peek / read_line deliver are exactly the oldest unread bytes,
nothing is duplicated or lost except by the documented overwrite at maxsize.

The op generator is *steered by the real code's state* (the C process is driven interactively: after every answer the
next op is drawn knowing size, used, i_in, i_out), so that the interesting places are hit on purpose: a write that ends
exactly at / one before / one past the end of the array, growth while the unread data is wrapped, overwrite at maxsize,
writes longer than the whole buffer (several wraps), drop > used, peek and read_to_fd across the wrap with the descriptor
taking only the first piece / failing on the second, lines split across the wrap, zero-length and invalid arguments.

    python3 lib/cbuflayer.py [seed]     quick self-test from the project root
"""
import collections, os, random, select, subprocess, sys, tempfile
sys.path.insert(0, os.path.dirname(os.path.abspath(__file__)))
from common import *

CHUNK = 1000
META = 17          # alloc - size with assertions compiled in: sentinel + two cookies


_driver_built = False


def build():
    """the C harness (per tree) and the Lean driver (the default lake targets of the checks do not include it)"""
    global _driver_built
    if not _driver_built:
        ok, out = lake_build(('cbdriver',))
        if not ok: raise BuildError('lake build cbdriver failed:\n' + out[-3000:])
        _driver_built = True
    return cc('u_cbuf', ['u_cbuf.c'], san=True)


# ---------------------------------------------------------------- configurations

def pick_cfg(R, k):
    """(kind, min, max, ovw, nops)"""
    kind = ['tiny', 'small', 'tiny', 'device', 'tiny', 'small', 'tiny', 'client'][k % 8]
    if kind == 'tiny':
        mn = R.choice([1, 2, 3, 5, 8, 8, 13]); mx = R.choice([mn, mn + 1, 16, 32, 32, 40]); mx = max(mx, mn)
        if R.random() < 0.1: mx = R.choice([0, -1, mn - 1])            # maxsize <= minsize: fixed size
        return kind, mn, mx, R.choice([2, 2, 2, 2, 0, 1]), 500
    if kind == 'small':
        mn = R.choice([8, 50, 100, 982, 983, 984, 1000]); mx = R.choice([1983, 2500, 2983, 3000, 3500, 1999, 2000])
        return kind, mn, mx, R.choice([2, 2, 2, 0, 1]), 350
    if kind == 'device': return kind, 1024, 65536, 2, 140
    return kind, 1024, 1048576, 2, 70


class Steer:
    """draws the next op from the real code's current state"""

    def __init__(self, R, kind, mn, mx, ovw):
        self.R = R; self.kind = kind; self.mn = mn; self.mx = max(mx, mn); self.ovw = ovw
        self.fill = True; self.pnl = {'tiny': 0.12, 'small': 0.02, 'device': 0.004, 'client': 0.0005}[kind]
        self.bigcap = {'tiny': 120, 'small': 4200, 'device': 70000, 'client': 400000}[kind]
        self.reached_max = 0

    def data(self, n):
        R = self.R
        b = bytearray(R.randbytes(n).replace(b'\n', b'\x0b'))
        if n:
            for _ in range(min(n, int(n * self.pnl) + (1 if R.random() < 0.5 else 0))): b[R.randrange(n)] = 10
        return bytes(b)

    def wlen(self, st):
        """a write length aimed at a boundary of the current state"""
        R = self.R; size, alloc, used, i_in, i_out = st[:5]
        free = size - used; to_end = size + 1 - i_in; tomax = self.mx - used
        c = [0, 1, R.randint(0, 9), to_end - 1, to_end, to_end + 1, free - 1, free, free + 1, free + R.randint(1, 40), tomax, tomax + 1, tomax - 1,
             size, size + 1, R.randint(0, max(1, size)), R.randint(0, max(1, free)), R.randint(0, max(1, free))]
        if size < 4000: c += [2 * size + 3, 3 * (size + 1), size + 1 + to_end]
        if self.kind in ('device', 'client'):
            # reach the maximum in a few ops
            c += [R.randint(size // 2, size * 2), R.randint(10000, self.bigcap), R.randint(10000, self.bigcap), CHUNK, CHUNK + 1, free + CHUNK]
        n = R.choice(c)
        return max(0, min(n, self.bigcap))

    def rlen(self, st):
        R = self.R; size, alloc, used, i_in, i_out = st[:5]
        first = size + 1 - i_out
        c = [0, 1, used - 1, used, used + 1, first - 1, first, first + 1, R.randint(0, max(1, used)), R.randint(0, max(1, used)), R.randint(0, 12), -1, -1]
        if R.random() < 0.03: c = [-2, -5, used + 1000, 1 << 20]
        n = R.choice(c)
        return max(-5, n)

    def next(self, st):
        R = self.R; size, alloc, used, i_in, i_out = st[:5]
        if R.random() < 0.06: self.fill = not self.fill
        if size == self.mx and self.kind in ('device', 'client'):
            self.reached_max += 1
            if self.reached_max > 6 and used > 8000: self.fill = False       # drain: keep the state lines short once the maximum has been exercised
        if used < 4000 and self.kind in ('device', 'client') and size < self.mx and R.random() < 0.5: self.fill = True
        r = R.random()
        pw = 0.62 if self.fill else 0.25
        if r < pw:
            k = R.random()
            if k < 0.72 or self.kind == 'client' and k < 0.9: return 'W ' + (self.data(self.wlen(st)).hex() or '-')
            # write_from_fd
            req = (size - used) or CHUNK
            ln = -1 if R.random() < 0.85 else R.choice([0, -2, 1, R.randint(0, 50), size, size + 5])
            want = req if ln == -1 else max(0, ln)
            av = R.choice([0, 1, want - 1, want, want + 1, want + 50, R.randint(0, want + 1), R.randint(0, want + 1)])
            av = max(0, min(av, self.bigcap))
            to_end = size + 1 - i_in
            caps = R.choice([[], [], [], [R.randint(1, 40)], [to_end], [to_end, R.randint(0, 5)], [to_end - 1], [max(1, to_end), max(1, to_end)], [0], [R.randint(1, max(1, want))] * R.randint(1, 3)])
            caps = [str(max(0, c)) for c in caps]
            return ' '.join(['F', str(ln), str(R.choice([0, 0, 1])), self.data(av).hex() or '-'] + caps)
        r = R.random()
        if r < 0.22: return 'D %d' % self.rlen(st)
        if r < 0.40: return 'P %d' % self.rlen(st)
        if r < 0.66:
            first = size + 1 - i_out
            ln = self.rlen(st)
            caps = R.choice([[], [], [first], [first - 1], [first + 1], [first, -1], [first, 0], [first, R.randint(1, 9)], [-1], [0], [1], [R.randint(1, max(1, used))],
                             [R.randint(1, max(1, used)), R.randint(-1, 9)], [first, R.randint(1, max(1, used))]])
            return ' '.join(['T', str(ln)] + [str(c) for c in caps])
        if r < 0.90:
            ln = R.choice([0, 1, 2, R.randint(0, 20), used, used + 1, used + 2, 1 << 20, 1 << 20, 1 << 20, R.randint(0, max(1, used)), -1 if R.random() < 0.1 else 7])
            lines = R.choice([1, 1, 1, 1, 1, 2, 3, -1, -1, 0, -2 if R.random() < 0.2 else 1, R.randint(1, 6)])
            return 'L %d %d' % (ln, lines)
        if r < 0.93: return 'X'
        if r < 0.97: return 'U'
        return 'O %d' % R.choice([self.ovw, self.ovw, 0, 1, 2, 3, -1])


# ---------------------------------------------------------------- running the two sides

class CSide:
    limit = 30

    def __init__(self, binary):
        self.hung = False
        self.err = tempfile.TemporaryFile()
        self.p = subprocess.Popen([binary], stdin=subprocess.PIPE, stdout=subprocess.PIPE, stderr=self.err, env=ASAN_ENV)

    def ask(self, op):
        try:
            self.p.stdin.write(op.encode() + b'\n'); self.p.stdin.flush()
            # an op that does not answer within the limit is a hang of the real code (a loop that does not end)
            rd, _, _ = select.select([self.p.stdout], [], [], self.limit)
            if not rd:
                self.hung = True; self.p.kill(); return None
            l = self.p.stdout.readline()
        except (BrokenPipeError, OSError):
            return None
        if not l.endswith(b'\n'): return None
        return l[:-1].decode()

    def close(self):
        try: self.p.stdin.close()
        except Exception: pass
        try: self.p.wait(timeout=20)
        except subprocess.TimeoutExpired: self.p.kill(); self.p.wait()
        self.err.seek(0); e = self.err.read().decode('latin1'); self.err.close()
        self.p.stdout.close()
        if self.hung: e += '\nHUNG: no answer within %d s; the process was killed\n' % self.limit
        return self.p.returncode, e


def lean_side(ops, limit=300):
    try:
        r = subprocess.run([os.path.join(LEANBIN, 'cbdriver')], input=('\n'.join(ops) + '\n').encode(), capture_output=True, timeout=limit)
        out = r.stdout.decode().split('\n')[:-1]; err = r.stderr.decode('latin1')
    except subprocess.TimeoutExpired as e:
        out = (e.stdout or b'').decode().split('\n')[:-1]; err = 'HUNG'
    return out, err


def parse(ans):
    """'W 5 0 | 8 25 5 5 0 0 0 | 0102' -> (['W','5','0'], (size, alloc, used, i_in, i_out, i_rep, gw), bytes)"""
    p = ans.split(' | ')
    if len(p) != 3: return p[0].split(' '), None, None
    st = tuple(int(x) for x in p[1].split(' '))
    return p[0].split(' '), st, (b'' if p[2] == '-' else bytes.fromhex(p[2]))


def unhex(s): return b'' if s in ('-', '~') else bytes.fromhex(s)


def gen_and_run_c(seed, k, fixed_ops=None):
    """drive the real code interactively; returns (cfg, ops, answers, returncode, stderr)"""
    R = random.Random(seed)
    kind, mn, mx, ovw, nops = pick_cfg(R, k)
    C = CSide(build())
    ops = []; outs = []
    S = Steer(R, kind, mn, mx, ovw)
    first = 'N %d %d %d' % (mn, mx, ovw)
    seq = iter(fixed_ops) if fixed_ops is not None else None
    op = next(seq) if seq else first
    st = None
    while op is not None:
        a = C.ask(op)
        ops.append(op)
        if a is None: break
        outs.append(a)
        _, s, _ = parse(a)
        if s is not None: st = s
        if seq is not None: op = next(seq, None); continue
        if len(ops) > nops: break
        if st is None: op = first; continue
        if R.random() < 0.004:
            # a fresh buffer in the middle of a run (create after destroy)
            kind, mn, mx, ovw, _ = pick_cfg(R, k); S = Steer(R, kind, mn, mx, ovw); op = 'N %d %d %d' % (mn, mx, ovw); st = None; continue
        op = S.next(st)
        if op[0] == 'O' and op.split()[1] in ('0', '1', '2'): S.ovw = int(op.split()[1])
    rc, err = C.close()
    return (kind, mn, mx, ovw), ops, outs, rc, err


# ---------------------------------------------------------------- predicates on the C side's own answers

def find_lines(q, chars, lines):
    """cbuf.h: [lines] > 0: the bytes comprising that many newline-terminated lines, 0 if not that many (all or none);
    -1: as many complete lines as fit into [chars] bytes"""
    if lines == 0: return 0
    if lines > 0:
        pos = -1
        for _ in range(lines):
            pos = q.find(b'\n', pos + 1)
            if pos < 0: return 0
        return pos + 1
    if chars <= 0: return 0
    return q.rfind(b'\n', 0, chars) + 1


def check_props(ops, outs, V, st):
    q = bytearray(); mx = mn = None; ovw = 2; prev = None
    def bad(sig, i, **kw):
        V.append(dict(sig='C09 cbuf: ' + sig, at=i, op=ops[i][:120], answer=outs[i][:160], **kw))
    for i, (op, out) in enumerate(zip(ops, outs)):
        w = op.split(' '); k = w[0]
        a, s, unread = parse(out)
        st['op ' + k] += 1
        if a[0] == 'ASSERT': bad('the model says an assertion fires', i); return
        if s is None:
            if k == 'N':
                if int(w[1]) > 0: bad('create refused a positive minsize', i)
                st['create: NULL (EINVAL)'] += 1; prev = None; q = bytearray(); mx = None
            elif out not in ('no-cbuf',): bad('unparsable answer', i)
            continue
        size, alloc, used, i_in, i_out, i_rep, gw = s
        N = size + 1
        # ---- state sanity, from the struct fields alone
        if not (0 <= i_in <= size and 0 <= i_out <= size and 0 <= i_rep <= size and 0 <= used <= size): bad('index out of range', i)
        if used != (i_in - i_out) % N: bad('used is not the distance from i_out to i_in', i)
        if len(unread) != used: bad('unread walk from i_out to i_in has not used bytes', i)
        if alloc != size + META: bad('alloc - size is not sentinel + cookies', i)
        if k == 'N':
            mn = int(w[1]); mx = max(int(w[2]), mn); q = bytearray(); prev = None
            ovw = 2; rco = int(a[2])
            if int(w[3]) in (0, 1, 2):
                ovw = int(w[3])
                if rco != 0: bad('opt_set refused a valid value', i)
            elif rco != -1: bad('opt_set accepted an invalid value', i)
            if size != mn or used != 0: bad('fresh buffer is not empty at minsize', i)
            st['create: ' + ('tiny' if mx <= 64 else 'small' if mx < 60000 else 'device 1024..65536' if mx == 65536 else 'client 1024..1 MiB') + (', fixed size' if mx == mn else '')] += 1
            st['create: overwrite mode %d' % ovw] += 1
            prev = s; continue
        psize, palloc, pused, pi_in, pi_out = prev[:5] if prev else (size, alloc, 0, 0, 0)
        if not (mn <= size <= mx): bad('size outside [minsize, maxsize]', i)
        if size < psize: bad('size shrank', i)
        grew = size > psize
        pwrapped = pused > 0 and pi_in < pi_out
        if grew:
            st['grown'] += 1
            if pwrapped: st['grown while the unread data was wrapped'] += 1
            if prev[5] > pi_in: st['grown with replay region moved (i_rep > i_in)'] += 1
            if size == mx: st['grown to maxsize'] += 1
            if k not in ('W', 'F'): bad('size changed by an op that does not write', i)
        if used > 0 and i_in < i_out: st['state: unread data wrapped'] += 1
        if used == size: st['state: full'] += 1
        if used == 0: st['state: empty'] += 1
        before = bytes(q)
        if k == 'O':
            v = int(w[1]); rc = int(a[1])
            if v in (0, 1, 2):
                ovw = v
                if rc != 0: bad('opt_set refused a valid value', i)
            elif rc != -1: bad('opt_set accepted an invalid value', i)
        elif k in ('W', 'F'):
            if k == 'W':
                src = unhex(w[1]); ln = len(src); rc = int(a[1]); dropped = int(a[2]); asked = ln
            else:
                ln = int(w[1]); src = unhex(w[3]); rc = int(a[1]); dropped = int(a[2]); consumed = int(a[3])
                asked = ((psize - pused) or CHUNK) if ln == -1 else ln
                if consumed != max(rc, 0): bad('bytes taken from the descriptor differ from the return value', i, consumed=consumed)
                if rc > asked >= 0: bad('read more than asked for', i)
                if ln < -1:
                    if rc != -1: bad('invalid length accepted', i)
                    st['EINVAL'] += 1
                if len(src) == 0 and asked > 0 and not (ovw == 0 and mx - pused == 0):
                    want = 0 if w[2] == '1' else -1
                    if rc != want: bad('an empty descriptor is not reported as it answered', i, want=want)
                    st['F: descriptor empty (%s)' % ('EOF' if w[2] == '1' else 'EAGAIN')] += 1
            if asked == 0: st['zero-length write'] += 1
            n = max(rc, 0)
            # the documented rule, on a plain queue
            lim = asked if asked >= 0 else 0
            if ovw == 0:
                room = mx - len(q)
                if lim > 0 and min(lim, room) == 0:
                    if rc != -1: bad('NO_DROP: a write into a full buffer at maxsize did not fail', i)
                    st['ENOSPC (NO_DROP)'] += 1
                if n > room: bad('NO_DROP: wrote more than there was room', i)
                if k == 'W' and lim > 0 and room > 0 and n != min(lim, room): bad('NO_DROP: short write although there was room', i)
            elif ovw == 1:
                if n > mx: bad('WRAP_ONCE: wrote more than maxsize', i)
                if k == 'W' and n != min(lim, mx): bad('WRAP_ONCE: wrong count', i)
            else:
                if k == 'W' and n != lim: bad('WRAP_MANY: a memory write was short', i)
            q += src[:n]
            wantdrop = max(0, len(q) - mx)
            if wantdrop: del q[:wantdrop]
            if dropped != wantdrop: bad('dropped count differs from the documented rule (oldest bytes beyond maxsize)', i, want=wantdrop)
            if wantdrop:
                st['overwritten at maxsize'] += 1
                if size != mx: bad('bytes dropped below maxsize', i)
            if n > 0:
                if pi_in + n > psize + 1 and not grew or (grew and pi_in + n > size + 1): st['write in two or more pieces (crosses the end of the array)'] += 1
                if n > size: st['write longer than the buffer (several wraps)'] += 1
                if pi_in + n == N and not grew: st['write ends exactly at the end of the array'] += 1
                if k == 'F' and len(w) > 4: st['F: short reads scripted'] += 1
        elif k == 'D':
            n = int(w[1]); rc = int(a[1])
            if n < -1:
                if rc != -1: bad('invalid length accepted', i)
                st['EINVAL'] += 1
            else:
                want = len(q) if n == -1 else min(n, len(q))
                if rc != want: bad('drop count', i, want=want)
                del q[:want]
                if n > pused: st['drop > used'] += 1
                if n == 0: st['zero-length drop'] += 1
        elif k == 'P':
            n = int(w[1]); rc = int(a[1]); got = unhex(a[2])
            if n < 0:
                if rc != -1: bad('invalid length accepted', i)
                st['EINVAL'] += 1
            else:
                want = before[:n]
                if rc != len(want) or got != want: bad('peek is not the oldest unread bytes', i, want=want[:40].hex())
                if n == 0: st['zero-length peek'] += 1
                if rc > 0 and pi_out + rc > N: st['peek across the wrap'] += 1
        elif k == 'T':
            n = int(w[1]); rc = int(a[1]); got = unhex(a[2]); caps = [int(x) for x in w[2:]]
            if n < -1:
                if rc != -1: bad('invalid length accepted', i)
                st['EINVAL'] += 1
            else:
                lim = len(q) if n == -1 else min(n, len(q))
                if len(got) > lim: bad('read_to_fd delivered more than asked / than there was', i)
                if got != before[:len(got)]: bad('read_to_fd: what was written to the descriptor is not the oldest unread bytes', i, want=before[:40].hex(), got=got[:40].hex())
                if rc > 0 and rc != len(got): bad('read_to_fd: return value differs from the bytes the descriptor took', i)
                if rc <= 0 and got: bad('read_to_fd: bytes went out but the return value says none did (they will be sent again)', i)
                del q[:len(got)]
                if lim == 0: st['zero-length read_to_fd'] += 1
                first = N - pi_out
                if lim > first:
                    st['read_to_fd across the wrap (two writes possible)'] += 1
                    if len(got) == first and caps[1:2] and caps[1] <= 0: st['read_to_fd: first piece taken, second write fails'] += 1
                    if len(got) > first: st['read_to_fd: both pieces taken'] += 1
                    if 0 < len(got) < first: st['read_to_fd: first piece cut short'] += 1
                if lim > 0 and rc <= 0: st['read_to_fd: descriptor takes nothing (rc %d)' % rc] += 1
        elif k == 'L':
            ln = int(w[1]); lines = int(w[2]); rc = int(a[1])
            if ln < 0 or lines < -1:
                if rc != -1: bad('invalid argument accepted', i)
                st['EINVAL'] += 1
            else:
                want = find_lines(before, ln - 1, lines)
                if rc != want: bad('read_line: count differs from the documented line rule', i, want=want)
                else:
                    if want > 0 and ln > 0:
                        m = min(want, ln - 1)
                        if a[2] == '~' or unhex(a[2]) != before[:m]: bad('read_line: bytes stored are not the oldest unread bytes', i, want=before[:40].hex())
                        if m < want: st['read_line: truncated (line longer than the buffer given)'] += 1
                    elif a[2] != '~': bad('read_line: buffer written although nothing was returned', i)
                    del q[:want]
                    if want > 0:
                        st['read_line: %s' % ('one line' if lines == 1 else 'several lines' if lines > 1 else 'as many as fit')] += 1
                        if pi_out + want > N: st['read_line: line(s) split across the wrap'] += 1
                    else: st['read_line: nothing (no complete line / zero)'] += 1
        elif k == 'X':
            q = bytearray()
            if (used, i_in, i_out, i_rep, gw) != (0, 0, 0, 0, 0): bad('flush does not reset the ring', i)
        elif k == 'U':
            if int(a[1]) != len(q) or int(a[2]) != (1 if len(q) == 0 else 0): bad('cbuf_used / cbuf_is_empty', i)
        # ---- the queue
        if bytes(q) != unread:
            j = next((x for x in range(min(len(q), len(unread))) if q[x] != unread[x]), min(len(q), len(unread)))
            bad('unread bytes differ from a plain queue with the documented overwrite rule', i, queue_len=len(q), unread_len=len(unread), first_difference=j,
                queue=bytes(q[max(0, j - 4):j + 12]).hex(), unread=unread[max(0, j - 4):j + 12].hex())
            q = bytearray(unread)
        if k in ('P', 'U', 'O') and prev and s != prev: bad('a read-only op changed the ring', i)
        prev = s


def one(args):
    seed, k = args[:2]
    fixed = args[2] if len(args) > 2 else None
    cfg, ops, c_out, rc, err = gen_and_run_c(seed, k, fixed)
    l_out, lerr = lean_side(ops)
    diffs = []; V = []; st = collections.Counter()
    died = rc != 0 or len(c_out) < len(ops)
    m = min(len(c_out), len(l_out))
    for i in range(m):
        if c_out[i] != l_out[i]:
            diffs.append(dict(at=i, kind='answer-differs', op=ops[i][:200], c=c_out[i][:300], lean=l_out[i][:300], history=[o[:80] for o in ops[max(0, i - 8):i]]))
            break
    if len(l_out) < len(c_out) and not diffs:
        diffs.append(dict(at=len(l_out), kind='model-did-not-answer', op=ops[len(l_out)][:200], stderr=lerr[-600:]))
    if died:
        i = len(c_out)
        pred = i < len(l_out) and l_out[i].startswith('ASSERT')
        st['runs ended by a death of the real code'] += 1
        cls = 'hang' if 'HUNG' in err else 'assertion' if 'Assertion' in err else 'sanitizer' if 'Sanitizer' in err or 'runtime error' in err else 'death'
        V.append(dict(sig='C09 cbuf: real code died (%s)%s' % (cls, ' - predicted by the model' if pred else ''), at=i, op=ops[i][:200] if i < len(ops) else '', detail=err[-1500:],
                      history=[o[:80] for o in ops[max(0, i - 8):i]]))
        if not pred: diffs.append(dict(at=i, kind='death-not-predicted', stderr=err[-1200:], op=ops[i][:200] if i < len(ops) else ''))
    try:
        check_props(ops[:len(c_out)], c_out, V, st)
    except Exception as e:
        import traceback
        V.append(dict(sig='predicate crashed: %r' % e, detail=traceback.format_exc()[-1200:]))
    small = sum(len(o) for o in ops) < 200000
    for v in V:
        at = v.get('at', 0)
        v['replay'] = dict(layer='cbuf', seed=seed, k=k, ops=ops[:at + 1] if small else None, at=at)
    for d in diffs: d['replay'] = dict(layer='cbuf', seed=seed, k=k, at=d['at'])
    distinct = len(set(o[:64] for o in ops))
    sample = dict(seed=seed, config=cfg, ops=[o[:60] for o in ops[:14]], answers=[a[:100] for a in c_out[:14]])
    return dict(n=len(c_out), distinct=distinct, diffs=diffs, violations=V, stats=st, sample=sample)


class CbufLayer:
    name = 'cbuf'

    def __init__(self, quick=24, thorough=512):
        self.quick = quick; self.thorough = thorough

    def build(self):
        build()

    def run(self, prop, tier, seed):
        ns = self.quick if tier == 'quick' else self.thorough if tier == 'thorough' else self.quick * 4
        self.build()
        rs = pmap(one, [(seed * 15485863 + k * 32452843 + 17, k) for k in range(ns)])
        st = collections.Counter()
        for r in rs: st.update(r['stats'])
        return dict(name=self.name, evaluations=sum(r['n'] for r in rs), distinct=sum(r['distinct'] for r in rs), samples=[rs[0]['sample'], rs[min(3, len(rs) - 1)]['sample']],
                    stats=dict(sorted(st.items())), diffs=[d for r in rs for d in r['diffs']], violations=[v for r in rs for v in r['violations']],
                    rule='one evaluation = one cbuf API call on the real cbuf.c (create+opt_set / write / write_from_fd with scripted short reads / read_to_fd with scripted '
                         'write capacities / peek / drop / read_line / flush / used), followed by the complete ring state (size alloc used i_in i_out i_rep got_wrap) and the unread '
                         'bytes walked from i_out to i_in, compared answer by answer with the index-level Lean model; %d runs: tiny buffers (1..13 -> 1..40, all three overwrite modes), '
                         'small ones across the 1000-byte growth steps, device (1024 -> 65536) and client (1024 -> 1 MiB) sizes grown to their maximum; ops steered by the real '
                         'state to array-end, free-space, maxsize and wrap boundaries; distinct = distinct op lines (first 64 characters) per run' % ns)

    def replay(self, rp, v):
        cfg, ops, c_out, rc, err = gen_and_run_c(rp['seed'], rp['k'], rp.get('ops'))
        l_out, lerr = lean_side(ops)
        at = rp.get('at', len(ops) - 1)
        print('configuration', cfg)
        for j in range(max(0, at - 10), min(len(ops), at + 2)):
            print(ops[j][:160]); print('   C   :', c_out[j][:300] if j < len(c_out) else '<dead>'); print('   Lean:', l_out[j][:300] if j < len(l_out) else '<none>')
        if rc != 0: print(err[-1500:])
        V = []; st = collections.Counter(); check_props(ops[:len(c_out)], c_out, V, st)
        for x in V[:5]: print('PREDICATE', json.dumps(x, default=str)[:900])
        bad = bool(V) or rc != 0 or c_out != l_out[:len(c_out)]
        return 1 if bad else 0


if __name__ == '__main__':
    seed = int(sys.argv[1]) if len(sys.argv) > 1 else 1
    t0 = time.time()
    L = CbufLayer()
    r = L.run('C09', 'quick', seed)
    for k2, v in r['stats'].items(): print('%8d  %s' % (v, k2))
    print('evaluations %d, distinct %d, disagreements %d, predicate violations %d, %.1fs' % (r['evaluations'], r['distinct'], len(r['diffs']), len(r['violations']), time.time() - t0))
    for d in r['diffs'][:3]: print('DIFF', json.dumps(d, default=str)[:1500])
    for v in r['violations'][:3]: print('VIOLATION', json.dumps({a: b for a, b in v.items() if a != 'replay'}, default=str)[:1500])
    sys.exit(1 if r['diffs'] or r['violations'] else 0)
