"""Property descriptors: which correspondence layers tie the theorems of Pm/Props/Cxx.lean to the code,
which predicates are evaluated on the implementation's trace, and what is trusted."""
import collections, hashlib, json, os
from common import *
import daemon, preds, trace, hostlist, redfish, speclayer, libpm, config, lexlayer, cbuflayer, seriallayer, listlayer, hashlayer, gramlayer

TRUSTED_BASE = [
    'Lean 4.33.0 kernel (thorough tier: re-checked by leanchecker)',
    'axioms: propext, Classical.choice, Quot.sound only (audited with #print axioms on every theorem on every run); no native_decide, no bv_decide, no sorry',
    'the hand-written model is the code only as far as the correspondence run of this check shows (differential testing, generator-bounded)',
    'glibc regexec/regcomp are an oracle: real answers are recorded and replayed to the model, which must ask the same question',
]


class DaemonLayer:
    """client.c + device.c + device_tcp.c + device_pipe.c running the body of _select_loop  ↔  Pm.Daemon.daemonPass"""
    name = 'daemon-pass'

    def __init__(self, predicates, profile=None, quick=(16, 1200), thorough=(512, 3000), deaths=None, compare=True, leaks=False):
        self.leaks = leaks
        self.predicates = predicates; self.profile = profile or {}; self.quick = quick; self.thorough = thorough
        # function(death_class) -> sig or None.  Default: any death of the real daemon that is not the known hostlist sort assert (F19,
        # predicted by the model) is a failing input for every property of the daemon: nobody is served after it
        self.deaths = deaths or default_deaths
        self.do_compare = compare

    def build(self):
        daemon.build()

    def vary(self, seed):
        """the profile of one run: the layer's profile, and from the 17th run of a sweep on (thorough tier, widened search) a
        perturbation drawn from the seed: fault rates, calm phases and the number of clients scaled up or down"""
        import random
        R = random.Random(seed ^ 0x5eed)
        prof = dict(self.profile)
        base = daemon.Gen(0, None).p
        for k, choices in (('faults', [0.2, 0.5, 1, 1, 2, 3]), ('calm', [0.3, 1, 1, 2]), ('garbage', [0.5, 1, 1, 3])):
            prof[k] = prof.get(k, base[k]) * R.choice(choices)
        prof['maxclients'] = max(1, prof.get('maxclients', base['maxclients']) + R.choice([-2, -1, 0, 0, 1, 3]))
        return prof

    def _one(self, args):
        seed, N = args[:2]
        profile = self.vary(seed) if len(args) > 2 and args[2] else self.profile
        return self._run_one(seed, N, profile)

    def _run_one(self, seed, N, profile):
        sim = daemon.simulate(seed, N, profile, conf=daemon.conf_for(seed))
        chunks = daemon.lean_side(sim)
        diffs = daemon.compare(sim, chunks) if self.do_compare else []
        tr = trace.parse(sim)
        V = []; st = collections.Counter()
        for pr in self.predicates:
            try:
                pr(tr, V, st)
            except Exception as e:
                import traceback
                V.append(dict(sig='predicate crashed: %s %r' % (pr.__name__, e), detail=traceback.format_exc()[-800:]))
        if sim['died']:
            cls = daemon.death_class(sim['stderr'])
            s = self.deaths(cls) if self.deaths else None
            # a sanitizer report is undefined behaviour of the real code on this very input: a failing input for any property
            if not s and (cls.startswith('asan') or cls == 'ubsan'): s = 'undefined behaviour in the real code (sanitizer): ' + cls
            if s: V.append(dict(sig=s, at=len(sim['ops']) - 1, detail=sim['stderr'][-1200:]))
        V.extend(sleeping_calls(sim, 'C05/C04'))
        if not getattr(self, 'factories', None): V.extend(delays_as_stated(sim))
        if self.leaks:
            td = sim.get('teardown')
            if td is not None and 'DIED' in td:
                V.append(dict(sig='C20 shutdown path crashed: ' + daemon.death_class(sim['stderr']), at=len(sim['ops']) - 1, detail=sim['stderr'][-1500:]))
            elif 'LeakSanitizer' in sim['stderr']:
                import re
                fr = re.findall(r'in (\w+) /[^\n]*src/', sim['stderr'])
                V.append(dict(sig='C20 memory still allocated and unreachable at exit (LeakSanitizer): ' + ' < '.join(fr[1:4]), at=len(sim['ops']) - 1, detail=sim['stderr'][sim['stderr'].index('LeakSanitizer'):][:1500]))
            st['C20 runs ended by teardown under LeakSanitizer'] += 1
            # main() itself runs in the harness: the dispositions it installed before serving, and what it returned after the signal
            sig = [l for l in sim['dump'] if l.startswith('I sig ')]
            if sig != ['I sig TERM handler INT handler HUP handler PIPE ign']:
                V.append(dict(sig='C20 signal dispositions installed by main() differ: %r' % sig, at=0))
            if td is not None and 'DIED' not in td:
                ex = [l for l in td if l.startswith('I exit ')]
                if ex != ['I exit 0 signalled 1']:
                    V.append(dict(sig='C20 a termination signal did not end the daemon with status 0: %r' % ex, at=len(sim['ops']) - 1))
                else: st['C20 SIGTERM while sleeping in poll: exit status 0'] += 1
        for v in V:
            at = v.get('at', len(sim['ops']) - 1)
            v['replay'] = dict(layer=self.name, seed=seed, N=N, profile=profile, ops=sim['ops'][:at + 1] if at < 600 else None, at=at)
        for d in diffs:
            d['replay'] = dict(layer=self.name, seed=seed, N=N, profile=profile, at=d['at'])
        hs = set()
        nontriv = 0
        for co in sim['couts']:
            if any(l.startswith('Y ') for l in co):
                h = hashlib.md5('\n'.join(l for l in co if not l.startswith('O interest')).encode()).digest()
                if h not in hs:
                    hs.add(h); nontriv += 1
        stats = collections.Counter(sim['stats']); stats.update(st)
        if sim['died']: stats['runs ended by a death of the real code: ' + daemon.death_class(sim['stderr'])] += 1
        sample = None
        for i, co in enumerate(sim['couts']):
            if i > 20 and any(l.startswith('Y write') for l in co) and len(sim['ops'][i]) > 30:
                sample = dict(seed=seed, pass_index=i, op=sim['ops'][i][:300], observed=[l[:200] for l in co[:12]]); break
        return dict(passes=len(sim['ops']), nontriv=nontriv, diffs=diffs, violations=V, stats=stats, sample=sample)

    def run(self, prop, tier, seed):
        nseeds, N = self.quick if tier == 'quick' else self.thorough if tier == 'thorough' else (self.quick[0] * 6, self.quick[1])
        self.build()
        seeds = [(seed * 100003 + k * 7919 + 11, N, k >= 16) for k in range(nseeds)]
        rs = pmap(self._one, seeds)
        stats = collections.Counter()
        for r in rs: stats.update(r['stats'])
        return dict(name=self.name, evaluations=sum(r['passes'] for r in rs), distinct=sum(r['nontriv'] for r in rs),
                    samples=[r['sample'] for r in rs if r['sample']][:2],
                    stats=dict(sorted(stats.items())), diffs=[d for r in rs for d in r['diffs']], violations=[v for r in rs for v in r['violations']],
                    rule='one evaluation = one pass of the daemon loop (kernel answers, client bytes and device bytes drawn from one PRNG per run; %d runs x %d passes, from the 17th run on with fault rates, calm phases and client counts perturbed per run; configuration mixp: vpc over tcp + statement-coverage spec as coprocess with ping; every third run on mixp3: the tcp host resolves to three addresses, connect()/SO_ERROR answered per call); every pass compared field by field with the Lean model; non-trivial = a pass in which the real code issued at least one system call, distinct by the hash of everything it printed for that pass' % (nseeds, N))

    def replay(self, rp, v):
        sim = daemon.simulate(rp['seed'], rp['N'], rp.get('profile'), conf=daemon.conf_for(rp['seed']), fixed_ops=rp.get('ops'))
        chunks = daemon.lean_side(sim)
        at = rp.get('at', len(sim['ops']) - 1)
        for i in range(max(0, at - 3), min(len(sim['ops']), at + 1)):
            print('--- pass', i, sim['ops'][i][:400])
            print('  C   :', *sim['couts'][i], sep='\n      ')
            print('  Lean:', *(chunks[i] if i < len(chunks) else ['<missing>']), sep='\n      ')
        tr = trace.parse(sim)
        V = []; st = collections.Counter()
        for pr in self.predicates: pr(tr, V, st)
        if sim['died']: print('real code died:', daemon.death_class(sim['stderr'])); print(sim['stderr'][-1500:])
        for x in V[:5]: print('PREDICATE', json.dumps(x, default=str)[:600])
        diffs = daemon.compare(sim, chunks)
        for d in diffs: print('DIFF', json.dumps(d, default=str)[:1200])
        return 1 if (V or diffs or sim['died']) else 0



def sleeping_calls(sim, prop='C05'):
    """connect() or read() issued on a descriptor that was never made non-blocking: in the kernel the single-threaded daemon sleeps
    there (a connect to a host that drops SYNs: minutes), and every client and every other device waits.  The simulated kernel
    keeps O_NONBLOCK per descriptor as fcntl sets it and marks such calls."""
    out = []
    for i, co in enumerate(sim['couts']):
        for l in co:
            if l.endswith(' BLOCKS') and (l.startswith('Y connect') or l.startswith('Y read')):
                out.append(dict(sig='%s the daemon sleeps in %s() on a blocking descriptor: all clients and devices wait' % (prop, l.split()[1]), at=i, line=l)); break
        if out: break
    return out



def delays_as_stated(sim):
    """every `delay <seconds>` of the specifications a run's configuration includes is loaded with its stated time (the file text is
    read here, independently of the parser whose result the model is handed): "a delay lasts at least its stated time" starts there"""
    import re as _re
    try:
        conf = open(daemon.conf_path(sim['conf'])).read()
    except Exception:
        return []
    def strip(text):
        out = []
        for line in text.split('\n'):
            q = False; buf = ''
            for ch in line:
                if ch == '"': q = not q
                if ch == '#' and not q: break
                buf += ch
            out.append(buf)
        return '\n'.join(out)
    want = []
    for inc in _re.findall(r'include\s+"([^"]+)"', conf):
        try: want += [round(float(x) * 1000000) for x in _re.findall(r'\bdelay\s+([0-9]*\.?[0-9]+)', strip(open(inc, errors='replace').read()))]
        except OSError: return []
    got = [int(x) for l in sim['dump'] if l.startswith('S ') for x in _re.findall(r' delay (\d+)', l)]
    # a specification may be included without being used by a device: then none of its scripts is in the dump
    if want and got and sorted(got) != sorted(want) and len(got) == len(want):
        return [dict(sig='C08 a delay of the specification is not loaded with its stated time', at=0, stated_us=sorted(want)[:8], loaded_us=sorted(got)[:8])]
    return []


def default_deaths(cls):
    if cls.startswith('assert:hostlist'): return None
    return 'the daemon is killed (every session and device is lost): ' + cls


def client_deaths(cls):
    # deaths attributable to client input: the fatal range hook (exit) and asserts inside hostlist.c
    if cls.startswith('exit') or cls == 'hang' or cls.startswith('assert:hostlist') or 'client' in cls: return 'C06 daemon killed: ' + cls
    return None


def device_deaths(cls):
    if cls.startswith('assert:hostlist'): return None
    return 'C07 daemon killed: ' + cls


def shutdown_deaths(cls):
    if cls.startswith('assert:hostlist'): return None
    return 'C20 daemon killed instead of shutting down: ' + cls


def any_death(cls):
    return 'daemon killed: ' + cls


P = preds
PROPS = collections.OrderedDict()
_dl = {}


def D(*a, **k):
    return DaemonLayer(list(a), **k)


PROPS['C01'] = dict(layers=[D(P.p_c01, P.p_c06_toolong, profile=dict(faults=0.4, longline=0.002))],
                    refines=[(r'^(Y write [23]\d\d\d |O dev \d+ to |O dev \d+ queue)', 'the actions queued or the plugs addressed on the wire are not what the request prescribes for this input (C01_appends, C01_wire_*)')], planned=['C01_validated (alias expansion)', 'C01_history_free at daemon level'])
PROPS['C02'] = dict(layers=[D(P.p_c02_c03, P.p_c02_retry, P.p_c02_wire, profile=dict(faults=0.5))], planned=['end-to-end 309 <node> line for an unsuccessful setresult (needs a history of what was sent)', 'CLI exit composed with C16_cli_exit', 'queue-wide Interp.Inv along daemon runs (assumed in C02_completion_is_reference_done)'])
PROPS['C03'] = dict(refines=[(r'^O RXMISMATCH', 'what is captured for the nodes of a query is not what its script defines: ' + 'the real interpreter evaluates another pattern than the script prescribes at this point of this input (C08_refines, C03_lists_justified)'), (r'^A \d+ ', 'the per-node states recorded for a query are not what the device answers give under its script (C08_setplugstate_writes, C03_lists_justified)')], layers=[D(P.p_c02_c03, P.p_c03_justified, profile=dict(faults=0.5))], planned=['which expect of which action filled the match register at the time of a write (a second ghost history); C03_stale_match_counterexample shows the register survives action boundaries', 'this device was never connected during the run => no write for its nodes (only the per-iteration lemma is proved)'])
PROPS['C04'] = dict(refines=[(r'^(C \d+ |Y close 1\d\d\d|Y write 1\d\d\d )', 'the sessions and what they are sent are not what the requests so far prescribe: a session with a command in progress was destroyed, kept or answered against C04_one_reply_per_line / C04_completion_reply / C11_departure')], layers=[D(P.p_c04, P.p_c04_quit, P.p_c04_deadline, P.p_c04_xpoll, P.p_c15, profile=dict(hup=0.04)),
                          # long-lived sessions: thousands of request lines on one connection (the input ring wraps many times)
                          D(P.p_c04, P.p_c04_quit, P.p_c15, profile=dict(faults=0.1, quit=0.003, maxclients=3, calm=0.05), quick=(8, 2500), thorough=(128, 6000))], planned=['C04_one_reply', 'C04_no_wedge', 'C04_tenure', 'C04_bound_partial'])
PROPS['C06'] = dict(layers=[D(P.p_c04, P.p_c15, P.p_c06_served, P.p_f23, profile=dict(fatal=0.03, faults=1.5, maxclients=6), deaths=client_deaths), D(P.p_c04, P.p_c15, P.p_c06_toolong, profile=dict(fatal=0.02, faults=0.1, quit=0.003, maxclients=3, calm=0.05, longline=0.003), deaths=client_deaths, quick=(8, 2500), thorough=(128, 6000))], planned=['C06_total over lines >= CP_LINEMAX (203)', 'C06_reap'])
PROPS['C07'] = dict(layers=[D(P.p_c20, profile=dict(garbage=0.08, pF6=0.03, calm=0.25, flood=0.004, storm=0.004, exactfit=0.03), deaths=device_deaths)], planned=['C07_no_abort assembled over whole runs'])
WIRE = r'^(Y write [23]\d\d\d |O dev \d+ to )'
# the regex oracle: the model replays the real regexec answers and must ask the same question; "RXMISMATCH" = the real interpreter
# evaluated another expect / pattern than the script's program has at this point of this input
RXQ = (r'^O RXMISMATCH', 'the real interpreter evaluates another pattern than the script prescribes at this point of this input (the model, proved equal to the reference program by C08_refines, asks a different question of the regex oracle)')
PROPS['C08'] = dict(layers=[D(P.p_c08, P.p_c01, profile=dict(faults=0.5, storm=0.003))],
                    refines=[(WIRE, 'the bytes sent to a device are not what the script prescribes for this input (reference semantics: C08_refines, C08_sends_are_script)'), RXQ], planned=['composition of the refinement over postPoll sequences with reconnects'])
PROPS['C09'] = dict(layers=[D(P.p_c09_write, P.p_c09_read, P.p_c04_quit, profile=dict(garbage=0.05, flood=0.004, longline=0.001, storm=0.004, burst=0.005, exactfit=0.03)), cbuflayer.CbufLayer(), seriallayer.SerialLayer()], planned=['the daemon model (Dev2/Daemon) still carries its buffers as byte lists with the size rule; it is tied to the ring model (Pm/CbufRing) through the shared size rule growTo and the refinement theorems C09_ring_*, not by substitution'])
PROPS['C10'] = dict(layers=[D(P.p_c10, profile=dict(storm=0.003)), listlayer.ListLayer()], planned=['the daemon model (Dev2/Daemon) still carries its queues as plain lists; it is tied to the node-level model of liblsd/list.c (Pm/LsdList) through the refinement theorems C10_list_* (a valid node-level list is a plain list with cursors under every call sequence), not by substitution; callbacks that modify the list they are called from are not covered'])
PROPS['C12'] = dict(refines=[(r'^O RXMISMATCH', 'after the failure the pending action is not executed again as its script prescribes from the first statement on: the real interpreter evaluates another pattern than the reference program at this point of this input (C12_restart, C12_rewind_initial, C08_refines)'), (r'^(Y write [23]\d\d\d |O dev \d+ to )', 'what is sent to the device after a failure is not what the pending scripts prescribe when executed again from their first statement (C12_restart, C12_rewind_initial: the rewound action abstracts to its whole script)'), (r'^(O dev \d+ conn|Y socket|Y connect)', 'the connection attempts are not those the back-off schedule and the connection layer prescribe for this input (C12_no_attempt_within_backoff, C12_backoff_one_second, C12_ioerr)')], layers=[D(P.p_c12, P.p_c12_disconnect, P.p_c04, P.p_c02_c03, profile=dict(pF6=0.02, calm=0.3, dead=0.004))], planned=['C12_ioerr', 'C12_recover_partial'])
PROPS['C13'] = dict(layers=[config.ConfigLayer()], planned=['C13_listings at daemon level (nodes / device replies) — the replies themselves are mirrored in Pm.Daemon and compared on every run'])
PROPS['C14'] = dict(layers=[hostlist.HostlistLayer()], planned=['C14_roundtrip', 'C14_sort_perm', 'C14_three_hops'])
PROPS['C18'] = dict(layers=[lexlayer.LexLayer(), config.ConfigLayer(prop='C18'), gramlayer.GrammarLayer()], planned=['the flex/bison automata, malloc and regcomp are not modelled: their memory safety on arbitrary input is observed under ASan/UBSan by the whole-file fuzz of this layer, not proved'])
PROPS['C19'] = dict(layers=[redfish.RedfishLayer()], planned=['`Safe` (no undefined or cyclic parent, every plug with a status path) preserved by setplugs with a defined acyclic parent and by setpath', 'the `outside` branches of the command layer (known findings F40-F42) are not described further'])
PROPS['C20'] = dict(layers=[D(P.p_c20, profile=dict(pF6=0.02, maxclients=6), leaks=True, deaths=shutdown_deaths)], planned=['C20_refcount', 'C20_objects', 'C20_shutdown (signal path / teardown not modelled yet)'])
PROPS['C15'] = dict(layers=[D(P.p_c15, P.p_c04, P.p_c04_quit, profile=dict(garbage=0.06, maxclients=6, burst=0.01))], planned=['client output beyond the 1 MiB buffer: the model never drops client output (the property carries that proviso; cbuf_write overwrites the oldest unsent bytes in C)', 'configuration strings with CR/LF escapes are outside `Good` (as coded: observation)'])
PROPS['C16'] = dict(layers=[libpm.LibPmLayer(), libpm.GreetingLayer()], planned=['memory safety of the remaining C is observed under ASan, not proved'])
PROPS['C17'] = dict(layers=[speclayer.SpecLayer(), D(P.p_c08, P.p_c17_sends, profile=dict(faults=0.5)), gramlayer.GrammarLayer(prop='C17', quick=((2, 100), (3, 120), (1, 3), (1, 0), (1, 200)), thorough=((8, 300), (12, 300), (4, 10), (1, 0), (4, 0)))], planned=['the flat reference program has no contexts: soundness is stated over the ExecCtx machine (Reach) and tied to it by C08_pass_is_run'])
PROPS['C11'] = dict(refines=[(r'^(C \d+ |A \d+ |Y write 1\d\d\d )', "a client's record, result cells or output are not what its own request and its own actions determine (C11_routing, C11_result_scope)")], layers=[D(P.p_c11, P.p_c11_events, P.p_c11_tele, P.p_f23, profile=dict(maxclients=6, burst=0.005))], planned=['C11_backpressure with the EAGAIN variant while the stuck client keeps sending', 'id wrap (F17) is outside the unbounded-Nat model'])


def all_layers():
    out = []
    for d in PROPS.values():
        for L in d['layers']:
            if L.name not in [x.name for x in out]: out.append(L)
    return out


def layer_by_name(n):
    for d in PROPS.values():
        for L in d['layers']:
            if L.name == n: return L
    return None

NOT_YET = {}


class SteadyLayer:
    """C20 live-heap ledger: the same cycle of requests (client connects, sends a fixed list of lines, quits; devices drop and
    re-establish their connections) is repeated; after two warm-up cycles the live heap reported by the allocator at the end of
    a cycle must not grow.  The cycle is repeated more often than the pool granularity of liblsd (32 objects per chunk), so one
    object lost per request shows.  Also compared pass for pass with the model."""
    name = 'daemon-steady-state'
    TOL = 64

    def __init__(self, quick=(16, 100), thorough=(128, 140)):
        self.quick = quick; self.thorough = thorough

    def build(self): daemon.build()

    def _one(self, args):
        seed, cycles = args
        world = daemon.MarkerWorld(seed) if seed % 4 else None
        sim = daemon.simulate_steady(seed, cycles=cycles, world=world)
        V = []; st = collections.Counter(sim['stats'])
        diffs = []
        if seed % 4 == 1 or world is None:
            chunks = daemon.lean_side(sim)
            for d in daemon.compare(sim, chunks):
                d['replay'] = dict(layer=self.name, seed=seed, cycles=cycles, at=d['at']); diffs.append(d)
            st['steady: runs compared with the model'] += 1
        h = sim['heaps']
        if sim['died']:
            V.append(dict(sig='C20 daemon killed in a steady-state run: ' + daemon.death_class(sim['stderr']), at=len(sim['ops']) - 1, detail=sim['stderr'][-1200:]))
        elif len(h) >= 9 and None not in h:
            # sustained growth: in the middle third and again in the last third (a buffer that grows once is not a leak)
            n = len(h); a, b, c = h[n // 3], h[2 * n // 3], h[-1]
            st['steady: cycles measured'] += n - n // 3
            st['steady: largest growth of the live heap over the last third (bytes)'] = max(0, c - b)
            if b - a > self.TOL and c - b > self.TOL:
                growth = c - a
                V.append(dict(sig='C20 live heap grows with every repetition of the same requests', at=sim['marks'][-1], growth_bytes=growth, cycles=n - n // 3,
                              per_cycle=round(growth / (n - 1 - n // 3), 1), heap_at_cycle_ends=h[:4] + ['...', a, '...', b, '...', c], lines=sim['lines'],
                              configuration=open(world.conf_path()).read()[:3000] if world else 'mixp'))
        td = sim.get('teardown')
        if td is not None and 'DIED' in td:
            V.append(dict(sig='C20 shutdown path crashed: ' + daemon.death_class(sim['stderr']), at=len(sim['ops']) - 1, detail=sim['stderr'][-1500:]))
        elif 'LeakSanitizer' in sim['stderr']:
            V.append(dict(sig='C20 memory still allocated and unreachable at exit (LeakSanitizer)', at=len(sim['ops']) - 1, detail=sim['stderr'][sim['stderr'].index('LeakSanitizer'):][:1500]))
        for v in V: v['replay'] = dict(layer=self.name, seed=seed, cycles=cycles, at=v.get('at', 0))
        return dict(passes=len(sim['ops']), diffs=diffs, violations=V, stats=st, sample=dict(seed=seed, lines=sim['lines'], heap_at_cycle_ends=h[:6]))

    def run(self, prop, tier, seed):
        ns, cycles = self.quick if tier == 'quick' else self.thorough if tier == 'thorough' else (self.quick[0] * 3, self.quick[1])
        self.build()
        rs = pmap(self._one, [(seed * 50021 + k * 911 + 5, cycles) for k in range(ns)])
        st = collections.Counter()
        for r in rs:
            for k, v in r['stats'].items():
                if 'largest growth' in k: st[k] = max(st[k], v)
                else: st[k] += v
        return dict(name=self.name, evaluations=sum(r['passes'] for r in rs), distinct=sum(r['passes'] for r in rs), samples=[rs[0]['sample']], stats=dict(sorted(st.items())),
                    diffs=[d for r in rs for d in r['diffs']], violations=[v for r in rs for v in r['violations']],
                    rule='one evaluation = one daemon pass; %d runs of %d identical cycles (8 request lines drawn per run; mixp or a generated configuration); live heap (ASan allocator statistics) at cycle ends: a violation is growth by more than %d bytes over the middle third of the cycles and again over the last third (each third repeats every request more than 32 times, the pool granularity of liblsd); three of four runs on generated configurations, one in four also compared with the model' % (ns, cycles, self.TOL))

    def replay(self, rp, v):
        world = daemon.MarkerWorld(rp['seed']) if rp['seed'] % 4 else None
        sim = daemon.simulate_steady(rp['seed'], cycles=rp['cycles'], world=world)
        print('request lines of one cycle:', sim['lines']); print('live heap at cycle ends:', sim['heaps'])


class PairedLayer:
    """C05: two runs of the same scheduled scenario, device B healthy vs sick; everything that concerns device A and the
    clients whose requests name only A's nodes must be identical, pass for pass.  Both runs are also compared with the model."""
    name = 'daemon-paired'

    def __init__(self, quick=(16, 500), thorough=(512, 1200), conf='mixp'):
        self.quick = quick; self.thorough = thorough; self.conf = conf
        if conf != 'mixp': self.name = 'daemon-paired-' + conf

    def build(self): daemon.build()

    def _one(self, args):
        seed, N = args
        V = []; diffs = []; st = collections.Counter()
        sims = [daemon.simulate_sched(seed, N, False, daemon.conf_for(seed, self.conf)), daemon.simulate_sched(seed, N, True, daemon.conf_for(seed, self.conf))]
        trs = []
        for sim in sims:
            chunks = daemon.lean_side(sim)
            for d in daemon.compare(sim, chunks):
                d['replay'] = dict(layer=self.name, seed=seed, N=N, sick=sim['sick_mode'], at=d['at']); diffs.append(d)
            trs.append(trace.parse(sim))
            if sim['died']: V.append(dict(sig='C05 daemon killed: ' + daemon.death_class(sim['stderr']), at=len(sim['ops']) - 1, detail=sim['stderr'][-800:]))
            V.extend(sleeping_calls(sim))
        st['sick mode ' + sims[1]['sick_mode']] += 1
        st['runs on configuration ' + sims[0]['conf']] += 1
        for sim in sims: st.update({k: v for k, v in sim['stats'].items() if k.startswith('multi-address')})
        views = [preds.client_views(t) for t in trs]
        for c in sims[0]['clients']:
            st['clients ' + c['kind']] += 1
            if c['kind'] != 'A': continue
            a = views[0].get(c['fd']); b = views[1].get(c['fd'])
            if a is None and b is None: continue
            st['A-only clients compared'] += 1
            ea = a.events if a else []; eb = b.events if b else []
            if ea != eb:
                k = next((i for i, (x, y) in enumerate(zip(ea, eb)) if x != y), min(len(ea), len(eb)))
                V.append(dict(sig='C05 a client whose targets lie on the healthy device sees a different conversation when another device is sick',
                              fd=c['fd'], sick=sims[1]['sick_mode'], first_difference=dict(healthy=repr(ea[k])[:200] if k < len(ea) else None, sick=repr(eb[k])[:200] if k < len(eb) else None), at=(ea[k][0] if k < len(ea) else eb[k][0] if k < len(eb) else 0)))
        # device A's own transcript (what it was sent, pass by pass)
        def a_transcript(t, afds=()):
            out = []
            for p in t:
                for fd, w in p.writes.items():
                    # descriptor numbers of a tcp device depend on how often the *other* device reconnected: compare without them
                    if 3000 <= fd < 5000 and not afds and w['data']: out.append((p.i, fd, w['data']))
                    elif fd in afds and w['data']: out.append((p.i, 'A', w['data']))
            return out
        ta, tb = (a_transcript(trs[0]), a_transcript(trs[1])) if self.conf == 'mixp' else (a_transcript(trs[0], sims[0]['afds']), a_transcript(trs[1], sims[1]['afds']))
        st['device A writes compared'] += len(ta)
        if ta != tb:
            k = next((i for i, (x, y) in enumerate(zip(ta, tb)) if x != y), min(len(ta), len(tb)))
            V.append(dict(sig='C05 the healthy device is addressed differently when another device is sick', sick=sims[1]['sick_mode'],
                          healthy=repr(ta[k])[:160] if k < len(ta) else None, sick_run=repr(tb[k])[:160] if k < len(tb) else None, at=(ta[k][0] if k < len(ta) else 0)))
        # one device's deadline is never hidden by another device's later one (the poll time-out is the minimum): both runs
        for t in trs:
            W = []; preds.p_c04_deadline(t, W, st)
            for w in W:
                if 'time-out registered for poll' in w['sig']:
                    w['sig'] = w['sig'].replace('C04', 'C05'); V.append(w)
        for v in V: v['replay'] = dict(layer=self.name, seed=seed, N=N, at=v.get('at', 0))
        return dict(passes=sum(len(s['ops']) for s in sims), diffs=diffs, violations=V, stats=st,
                    sample=dict(seed=seed, sick_mode=sims[1]['sick_mode'], clients=[(c['kind'], [l.decode('latin1') for o, l in c['lines']][:3]) for c in sims[0]['clients']][:4]))

    def run(self, prop, tier, seed):
        ns, N = self.quick if tier == 'quick' else self.thorough if tier == 'thorough' else (self.quick[0] * 4, self.quick[1])
        self.build()
        rs = pmap(self._one, [(seed * 40009 + k * 613 + 29, N) for k in range(ns)])
        st = collections.Counter()
        for r in rs: st.update(r['stats'])
        return dict(name=self.name, evaluations=sum(r['passes'] for r in rs), distinct=sum(r['passes'] for r in rs) // 2, samples=[rs[0]['sample']], stats=dict(sorted(st.items())),
                    diffs=[d for r in rs for d in r['diffs']], violations=[v for r in rs for v in r['violations']],
                    rule='one evaluation = one daemon pass; each scenario (clock, client connections and every byte they send fixed in advance; device A answers from its own PRNG) is run twice, device B healthy and device B sick (silent / garbage / partial lines / flood / close / refuse), and the A-only clients\' conversations and device A\'s transcript are compared pass for pass; distinct = passes of the healthy run')

    def replay(self, rp, v):
        for sick in (False, True):
            sim = daemon.simulate_sched(rp['seed'], rp['N'], sick, daemon.conf_for(rp['seed'], getattr(self, 'conf', 'mixp')))
            at = rp.get('at', 0)
            print('=== device B', sim['sick_mode'])
            for i in range(max(0, at - 2), min(len(sim['ops']), at + 2)):
                print('--- pass', i, sim['ops'][i][:300]); print(*sim['couts'][i][:30], sep='\n   ')
        return 1


PROPS['C05'] = dict(layers=[PairedLayer(), PairedLayer(conf='tcp2')], planned=['equality up to renaming of descriptor numbers (the counter coupling DevHyps.c1..c3: B consumed the same number of descriptors in both runs)', 'untracked clients are Inert (C05_observer_typing_counterexample shows why)', 'equality of real completion times (time is an input of the model)'])
PROPS.move_to_end('C05', last=False)
PROPS['C20']['layers'].append(SteadyLayer())


class MarkerLayer(DaemonLayer):
    """daemon pass on generated marker configurations (script-variant mixes, plug counts and unused plugs drawn per run)"""
    name = 'daemon-pass-generated-configs'

    def __init__(self, pred_factories, generic=(), profile=None, quick=(16, 700), thorough=(512, 2000), deaths=None):
        DaemonLayer.__init__(self, list(generic), profile=profile, quick=quick, thorough=thorough, deaths=deaths)
        self.factories = pred_factories

    def _one(self, args):
        seed, N = args[:2]
        profile = self.vary(seed) if len(args) > 2 and args[2] else self.profile
        world = daemon.MarkerWorld(seed)
        sim = daemon.simulate(seed, N, profile, world=world)
        chunks = daemon.lean_side(sim)
        diffs = daemon.compare(sim, chunks)
        tr = trace.parse(sim)
        V = []; st = collections.Counter()
        for pr in list(self.predicates) + [f(world) for f in self.factories]:
            try: pr(tr, V, st)
            except Exception as e:
                import traceback
                V.append(dict(sig='predicate crashed: %s %r' % (getattr(pr, '__name__', '?'), e), detail=traceback.format_exc()[-800:]))
        if sim['died']:
            cls = daemon.death_class(sim['stderr'])
            s = self.deaths(cls) if self.deaths else None
            # a sanitizer report is undefined behaviour of the real code on this very input: a failing input for any property
            if not s and (cls.startswith('asan') or cls == 'ubsan'): s = 'undefined behaviour in the real code (sanitizer): ' + cls
            if s: V.append(dict(sig=s, at=len(sim['ops']) - 1, detail=sim['stderr'][-1200:]))
        for v in V: v['replay'] = dict(layer=self.name, seed=seed, N=N, profile=profile, at=v.get('at', len(sim['ops']) - 1), configuration=world.conf_text())
        for d in diffs: d['replay'] = dict(layer=self.name, seed=seed, N=N, profile=profile, at=d['at'], configuration=world.conf_text())
        stats = collections.Counter(sim['stats']); stats.update(st)
        for d in world.devs:
            for k in d['has']: stats['config: script kind %d defined' % k] += 1
        if sim['died']: stats['runs ended by a death of the real code: ' + daemon.death_class(sim['stderr'])] += 1
        nontriv = len(set(hashlib.md5('\n'.join(l for l in co if not l.startswith('O interest')).encode()).digest() for co in sim['couts'] if any(l.startswith('Y ') for l in co)))
        return dict(passes=len(sim['ops']), nontriv=nontriv, diffs=diffs, violations=V, stats=stats,
                    sample=dict(seed=seed, configuration=world.conf_text()[:600], first_ops=[o[:120] for o in sim['ops'][20:23]]))

    def replay(self, rp, v):
        world = daemon.MarkerWorld(rp['seed'])
        sim = daemon.simulate(rp['seed'], rp['N'], rp.get('profile'), world=world)
        chunks = daemon.lean_side(sim)
        print(world.conf_text())
        at = rp.get('at', len(sim['ops']) - 1)
        for i in range(max(0, at - 3), min(len(sim['ops']), at + 1)):
            print('--- pass', i, sim['ops'][i][:400]); print('  C   :', *sim['couts'][i], sep='\n      '); print('  Lean:', *(chunks[i] if i < len(chunks) else ['<missing>']), sep='\n      ')
        return 1


ML = lambda *f, **k: MarkerLayer(list(f), **k)
PROPS['C01']['layers'].append(ML(P.p_m_c01, P.p_m_c02, profile=dict(faults=0.3)))
PROPS['C02']['layers'].append(ML(P.p_m_c02, P.p_m_c01, generic=[P.p_c02_c03], profile=dict(faults=0.5)))
PROPS['C03']['layers'].append(ML(P.p_m_c02, generic=[P.p_c02_c03], profile=dict(faults=0.5)))
PROPS['C03']['layers'].append(hashlayer.HashLayer())
PROPS['C08']['layers'].append(ML(P.p_m_c08, P.p_m_c01, profile=dict(faults=0.3)))
PROPS['C13']['layers'].append(ML(P.p_m_c13, profile=dict(faults=0.2), quick=(16, 400)))
PROPS['C13']['refines'] = [(r'^C \d+ ', "a listing sent to a client is not the configured map (the replies of 'device' and 'nodes' are mirrored in Pm.Daemon: C13_nodes_listing)")]


class IdWrapLayer:
    """C11: client ids identify sessions - completions, telemetry and diagnostics are routed by id alone.  The id sequence wraps
    (client.c:_next_cli_id; the constant is read from the tree by the translator).  This layer replays, on the real code, the one
    history that matters: a session that is still connected when the sequence comes round."""
    name = 'daemon-id-wrap'

    def build(self): daemon.build()

    def run(self, prop, tier, seed):
        import re as _re, translate
        self.build()
        wrap = int(_re.search(r'def CLI_ID_WRAP : Nat := (\d+)', open(os.path.join(translate.GEN, 'Tables.lean')).read()).group(1))
        sim = daemon.simulate_idwrap(wrap)
        tr = trace.parse(sim)
        V = []; st = collections.Counter()
        if sim['died']: V.append(dict(sig='C11 daemon killed in the id-wrap scenario: ' + daemon.death_class(sim['stderr']), at=len(sim['ops']) - 1, detail=sim['stderr'][-800:]))
        for p in tr:
            ids = [c['id'] for c in p.clients.values()]
            st['id-wrap: passes inspected'] += 1
            dup = sorted({i for i in ids if ids.count(i) > 1})
            if dup:
                V.append(dict(sig='C11 two live sessions share one client id after the id sequence wrapped at %d' % wrap, at=p.i, ids=ids, shared=dup,
                              detail='replies, telemetry and diagnostics are routed by _find_client(id), which returns the first match: the later session gets nothing, the earlier one gets both'))
                break
        for v in V: v['replay'] = dict(layer=self.name, wrap=wrap, ops=sim['ops'])
        return dict(name=self.name, evaluations=len(sim['ops']), distinct=len(sim['ops']), samples=[dict(wrap=wrap, ops=sim['ops'], clients_at_end=[l for l in sim['couts'][-1] if l.startswith('C ')] if sim['couts'] else [])],
                    stats=dict(st, **{'id sequence wraps at': wrap}), diffs=[], violations=V,
                    rule='one evaluation = one pass of one fixed history on the real code: session A connects and stays, the id sequence is placed two before its wrap point (as read from client.c by the translator), four more sessions connect; not compared with the model, whose id counter is unbounded (TablesCheck.cliIdWrap_is_int_max says up to where that is faithful)')

    def replay(self, rp, v):
        sim = daemon.simulate_idwrap(rp['wrap'])
        for op, co in zip(sim['ops'], sim['couts']):
            print('---', op); print(*[l for l in co if l.startswith('C ') or l.startswith('Y accept')], sep='\n   ')
        return 1


PROPS['C11']['layers'].append(IdWrapLayer())


class StdioLayer:
    """C09 (write side) for the `--stdio` client, whose input and output are two different descriptors: the real powermand.c is
    started with --stdio on simulated descriptors 1000 (in) / 1001 (out) and compared pass by pass with Pm.Daemon.Stdio
    (daemonPassIO); on runs without injected faults the client can only end by its own `quit`, and then everything the daemon
    ever queued for it must have been written to the output descriptor, ending with the farewell."""
    name = 'daemon-stdio'

    def build(self): daemon.build()

    def _one(self, a):
        seed, N, faults, prop = a
        sim = daemon.simulate_stdio(seed, N, faults)
        chunks = daemon.lean_side(sim)
        diffs = daemon.compare(sim, chunks)
        for d in diffs: d['replay'] = dict(layer=self.name, seed=seed, N=N, faults=faults, at=d['at'])
        V = []; st = collections.Counter()
        out = b''.join(bytes.fromhex(l.split()[3]) for co in sim['couts'] for l in co if l.startswith('Y write %d ' % daemon.STDIO_OUT) and l.split()[3] != '-')
        st['runs'] += 1; st['passes'] += len(sim['ops'])
        st['runs that ended with the daemon leaving its loop'] += 1 if sim['done'] else 0
        st['runs without injected faults'] += 1 if sim['clean'] else 0
        st['runs ended by SIGTERM while the client was served (both descriptors closed in the teardown)'] += 1 if (sim['ops'] and sim['ops'][-1].startswith('Q') and sim['done']) else 0
        st['final flushes larger than what the descriptor could take at once (write would sleep)'] += sum(1 for co in sim['couts'] for l in co if l.startswith('Y write %d ' % daemon.STDIO_OUT) and l.endswith('BLOCKS'))
        st['bytes delivered to the client: ' + ('< 1 KiB' if len(out) < 1024 else '< 16 KiB' if len(out) < 16384 else '>= 16 KiB')] += 1
        if any(l.startswith('Y write %d ' % daemon.STDIO_IN) for co in sim['couts'] for l in co):
            V.append(dict(sig=prop + ' output for the --stdio client was written to its input descriptor', at=len(sim['ops']) - 1))
        if sim['done'] and not sim['died']:
            closes = collections.Counter(l for co in sim['couts'] for l in co if l.startswith('Y close 100'))
            st['ended runs whose two client descriptors were checked to be closed exactly once'] += 1
            if closes.get('Y close %d' % daemon.STDIO_IN, 0) != 1 or closes.get('Y close %d' % daemon.STDIO_OUT, 0) != 1:
                V.append(dict(sig=prop + ' the descriptors of the --stdio client are not closed exactly once each when the daemon ends', at=len(sim['ops']) - 1, closes=dict(closes)))
        if sim['died'] and not diffs:
            V.append(dict(sig=prop + ' daemon killed in --stdio mode: ' + daemon.death_class(sim['stderr']), at=len(sim['ops']) - 1, detail=sim['stderr'][-800:]))
        if sim['clean'] and sim['done'] and not sim['died']:
            st['clean runs checked for a complete output stream'] += 1
            if not out.endswith(b'101 Goodbye\r\n'):
                V.append(dict(sig=prop + ' output queued for the --stdio client was lost when it quit: the stream delivered to its output descriptor does not end with the farewell',
                              at=len(sim['ops']) - 1, delivered=len(out), tail=out[-60:].decode('latin1')))
        for v in V: v['replay'] = dict(layer=self.name, seed=seed, N=N, faults=faults)
        return dict(diffs=diffs, V=V, st=st, sample=dict(seed=seed, passes=len(sim['ops']), delivered=len(out), ended=sim['done']))

    def run(self, prop, tier, seed):
        self.build()
        n = dict(quick=48, thorough=600, widen=200).get(tier, 48)
        jobs = [(seed * 100000 + k, 30 if k % 3 else 60, 0.0 if k % 2 == 0 else 0.15, prop) for k in range(n)]
        res = pmap(self._one, jobs)
        st = collections.Counter(); diffs = []; V = []
        for r in res: st.update(r['st']); diffs += r['diffs']; V += r['V']
        return dict(name=self.name, evaluations=st['passes'], distinct=st['passes'], samples=[r['sample'] for r in res[:3]], stats=dict(st), diffs=diffs, violations=V,
                    rule='one evaluation = one pass of the real powermand.c in --stdio mode (client.c: _create_client_stdio, cli_pre_poll / cli_post_poll with ofd, _handle_write, _destroy_client, cli_server_done) compared line by line with Pm.Daemon.Stdio.daemonPassIO; half of the runs inject descriptor faults, one in five ends with SIGTERM while the client is served (signalPassIO)')

    def replay(self, rp, v):
        sim = daemon.simulate_stdio(rp['seed'], rp['N'], rp['faults'])
        chunks = daemon.lean_side(sim)
        at = rp.get('at', len(sim['ops']) - 1)
        for i in range(max(0, at - 1), min(len(sim['ops']), at + 1)):
            print('--- pass', i, sim['ops'][i][:400])
            print('  C   :', *[l[:300] for l in sim['couts'][i]], sep='\n      ')
            print('  Lean:', *[l[:300] for l in (chunks[i] if i < len(chunks) else ['<missing>'])], sep='\n      ')
        diffs = daemon.compare(sim, chunks)
        for d in diffs: print('DIFF', json.dumps(d, default=str)[:1200])
        return 1 if diffs or sim['died'] else 0


PROPS['C09']['layers'].append(StdioLayer())
PROPS['C20']['layers'].append(StdioLayer())      # the teardown of --stdio mode: both client descriptors closed exactly once (C20_stdio_teardown)
PROPS['C09']['refines'] = [(r'^Y write 1\d\d\d ', "what is handed to a client's output descriptor is not what C09 prescribes for this input: the queue is delivered exactly once and in order (C09_stdio_conserve, C09_write_*), and the final flush of a client that quit hands over the whole queue (C09_stdio_quit_flush)")]
