"""Daemon-pass correspondence: the real client.c + device.c + device_tcp.c/device_pipe.c running the
body of powermand.c:_select_loop behind wrapped system calls (harness/udmn.c) against the Lean model
Pm.Daemon.daemonPass behind the line-protocol driver DmMain.  One PRNG (seeded) drives clients, peer
personalities and kernel answers; the trace the C side printed is what predicates are evaluated on."""
import collections, os, random, re, subprocess
from common import *

WRAPS = ['gettimeofday', 'regexec', 'socket', 'setsockopt', 'connect', 'getsockopt', 'accept', 'getnameinfo', 'fcntl',
         'close', 'read', 'write', 'poll', 'socketpair', 'fork', 'kill', 'waitpid', 'xpoll', 'getaddrinfo', 'freeaddrinfo']


def build():
    gen_parser()
    srcs = ['udmn.c', 'gen:parse_lex.c', 'gen:parse_tab.c'] + \
        [S('powerman/%s.c' % x) for x in ('arglist', 'pluglist', 'debug', 'device_pipe', 'device_serial')] + \
        [S('liblsd/%s.c' % x) for x in ('hostlist', 'list', 'cbuf', 'hash')] + \
        [S('libcommon/%s.c' % x) for x in ('error', 'xmalloc', 'hprintf', 'fdutil', 'argv', 'xpoll', 'xread', 'xsignal')]
    return cc('udmn', srcs, wraps=WRAPS)


CONFS = {
    # two devices with different specifications and transports: shipped vpc.dev over tcp (half of its plugs unmapped)
    # and the statement-coverage specification xp.dev as a coprocess with periodic ping
    'mixp': '''include "{repo}/t/etc/vpc.dev"
include "{harness}/xp.dev"
device "d0" "vpc" "127.0.0.1:11001"
device "d1" "x" "/bin/true |&"
node "t[0-7]" "d0"
node "u[0-3]" "d1" "[0-3]"
''',
}
# two vpc devices over tcp (the common deployment): for the paired runs of C05 with a healthy *tcp* device next to a sick one
CONFS['tcp2'] = '''include "{repo}/t/etc/vpc.dev"
device "d0" "vpc" "127.0.0.1:11001"
device "d1" "vpc" "127.0.0.1:11002"
node "t[0-7]" "d0"
node "u[0-3]" "d1" "[0-3]"
'''
# aliases (conf_exp_aliases): several nodes of one device, across devices, one node, a member named twice, all nodes
MIXP_ALIASES = collections.OrderedDict([('rackt', 't[0-3]'), ('mix', 't7,u[1-2]'), ('solo', 'u0'), ('dupl', 't1,t1'), ('everything', 't[0-7],u[0-3]'),
                                        # an alias named like a node, and an alias that has that node as a member: expansion is one level deep
                                        ('t6', 't[4-5]'), ('nest', 't6,u0')])      # t6 stays on its own device: the scheduled clients of the paired runs name t6
import preds as _preds
_preds.ALIASES = {k.encode(): _preds.expand_hl(v.encode()) for k, v in MIXP_ALIASES.items()}     # MarkerWorld configurations have none: names differ
CONFS['mixp'] += ''.join('alias "%s" "%s"\n' % kv for kv in MIXP_ALIASES.items())
# the same with a tcp device whose host name resolves to three addresses (`multi3`: the harness's getaddrinfo): tcp_connect and
# tcp_finish_connect walk the list
CONFS['mixp3'] = CONFS['mixp'].replace('"127.0.0.1:11001"', '"multi3:11001"')
NADDR = {'mixp3': 3}


def conf_for(seed, conf='mixp'):
    """the configuration a run of the given seed uses: every third run of `mixp` is on the multi-address variant"""
    return 'mixp3' if conf == 'mixp' and seed % 3 == 0 else conf


def conf_path(name):
    d = tree_dir()
    p = os.path.join(d, name + '.conf')
    if not os.path.exists(p):
        with open(p + '.tmp%d' % os.getpid(), 'w') as f:
            f.write(CONFS[name].format(repo=REPO, harness=os.path.join(VERIF, 'harness')))
        os.rename(p + '.tmp%d' % os.getpid(), p)
    return p


def hx(b):
    return b.hex() if b else "-"


COMS = ["on", "off", "cycle", "reset", "flash", "unflash", "status", "temp", "beacon"]


class Gen:
    """clients, peers and kernel answers for the 'mixp' configuration"""

    def __init__(self, seed, profile):
        self.R = random.Random(seed)
        # storm: per pass, the chance that the tcp device (device 0 of `mixp`) starts a telnet storm with stalled writes (see simulate)
        self.p = dict(calm=0.15, pF6=0.0005, fatal=0.0005, hibyte=True, faults=1.0, maxclients=4, quit=0.04, garbage=0.02, storm=0.0)
        self.p.update(profile or {})

    world = None

    def target(self):
        R = self.R
        if self.world: return self.world.target(R)
        r = R.random()
        if r < 0.2: return "t%d" % R.randint(0, 7)
        if r < 0.3: return "u%d" % R.randint(0, 3)
        if r < 0.4: return "t[%d-%d]" % (R.randint(0, 3), R.randint(3, 7))
        if r < 0.5: return "u[%d-%d]" % (R.randint(0, 1), R.randint(1, 3))
        if r < 0.6: return "t[0-7],u[0-3]"
        if r < 0.7: return "t%d,u%d" % (R.randint(0, 7), R.randint(0, 3))
        if r < 0.8: return "u[0-3],t[2-4]"
        if r < 0.86: return "t[0-7]"
        if r < 0.92: return "u[0-3]"
        if r < 0.94: return "u1,t1,u1"
        if r < 0.95: return "t[0-3],t20"
        # alias names: alone, with nodes (before and after, overlapping), twice, with an unknown name
        return R.choice(["rackt", "mix", "solo", "dupl", "everything", "rackt,u3", "t5,rackt", "t2,rackt,t2", "mix,mix", "solo,mix,rackt", "rackt,zz9", "u[0-1],dupl", "rackt,t[2-5]", "nest", "nest,t6", "t6", "t[5-6]", "nest,nest"])

    def longline(self):
        """a request line around CP_LINEMAX (131072): at or above it the daemon answers 203 and executes nothing"""
        R = self.R
        L = R.choice([131071, 131072, 131072, 131073, 133000])
        k = R.random()
        if k < 0.4: body = b"x" * L                                         # 201 below the limit, 203 from it on
        elif k < 0.6: return b"  \t" + b"y" * L + b" \r\n"                   # the limit applies to the stripped text
        else:
            L = max(L, 131072)                                              # executable text only from the limit on (203 expected)
            tail = R.choice([b"t15", b"t12", b"u3"])
            k = (L - 3 - len(tail)) // 3
            body = b"on" + b" " * (L - 2 - 3 * k - len(tail)) + b"t1," * k + tail     # cut one short, `t15` reads `t1`
        return body + b"\n"

    def clientline(self):
        R = self.R
        r = R.random()
        if r < self.p.get('longline', 0.0): return self.longline()
        if r < 0.62: return ("%s %s\n" % (R.choice(COMS), self.target())).encode()
        if r < 0.70: return b"telemetry\r\n"
        if r < 0.76: return b"exprange\n"
        if r < 0.76 + self.p['quit']: return b"quit\n"
        if r < 0.82: return R.choice([b"help\n", b"nodes\n", b"device\n", b"device t1\n", b"device u[0-3]\n", b"device t[1\n", b"device zz\n", b"Nodes x\n", b"device t[0-7],u[0-3]\n"])
        if r < 0.85: return R.choice([b"foo\n", b"\n", b"status\n", b"temp\n", b"beacon\n", b"status\x00 t1\n", b"on t[1-\n"])
        if r < 0.85 + self.p['fatal']: return R.choice([b"on t[5-1]\n", b"status t[1-100000]\n", b"device t[3-1]\n", b"off t[a-b]\n", b"status t[0-18446744073709551615]\n", b"on t[1-18446744073709551616]\n", b"device t[0-18446744073709551615]\n"])
        if r < 0.92: return ("%s %s\n%s %s\n" % (R.choice(COMS), self.target(), R.choice(COMS), self.target())).encode()
        return ("%s %s" % (R.choice(COMS), self.target())).encode()

    def devreply(self, sent):
        R = self.R
        out = b""
        s = sent.decode('latin1')
        n = R.randint(0, 99)

        def prompt(): return ("%d OK\n%d vpc> " % (n, n + 1)).encode()
        w = s.split()

        def ids(arg):
            if arg == "*": return list(range(16))
            r = []
            a = arg.strip("[]")
            for part in a.split(","):
                if "-" in part:
                    lo, hi = part.split("-")
                    r += list(range(int(lo), int(hi) + 1))
                elif part.isdigit(): r.append(int(part))
            return r
        try:
            if s.startswith("stat") or s.startswith("beacon") or s.startswith("soft"):
                for i in ids(w[1] if len(w) > 1 else "*"): out += ("plug %d: %s\n" % (i, R.choice(["ON", "OFF", "ERROR", "ON"]))).encode()
            elif s.startswith("bstat"):
                for i in range(5): out += ("%s outlet %s\n" % (R.choice(["  ", " -", "", "x"]), R.choice(["ON", "OFF", "ON", "OFF", "ERROR OFF"]))).encode()
            elif s.startswith("xtemp"):
                # a value that may span lines: the reply shows it inside one protocol line (F16)
                for i in ids(w[1] if len(w) > 1 else "*")[:6]: out += ("%d=%s~" % (i, R.choice(["70", "71", "68 C", "", "7\r\n2", "70\r\n102 Command completed successfully\r\npowerman> ", "\n", "61\r"]))).encode()
            elif s.startswith("temp"):
                for i in ids(w[1] if len(w) > 1 else "*"): out += ("plug %d: %d\n" % (i, 70 + i)).encode()
            elif s.startswith("unflash"):
                # a result text that may span lines: a diagnostic echoed to the client must still be one protocol line
                for i in ids(w[1] if len(w) > 1 else "*")[:6]: out += ("%d: %s~" % (i, R.choice(["OK", "OK", "ERR breaker tripped", "ERR line one\r\nsee event log 17", "ERR\nx", "ERR \r"] + (["ERR " + "v" * R.choice([1018, 1019, 1020, 1500, 3000])] if R.random() < 0.3 else [])))).encode()
            elif s.startswith("on") or s.startswith("off"):
                for i in ids(w[1] if len(w) > 1 else "*")[:6]: out += ("%d: %s\n" % (i, R.choice(["OK", "OK", "OK", "ERROR"]))).encode()
        except Exception:
            pass
        out += prompt()
        if R.random() < self.p.get('flood', 0.0):
            # more than the device buffer holds (64 KiB) before the text the script waits for: the oldest bytes are dropped
            out = bytes(R.choice(b"#=.z") for _ in range(8)) * R.choice([4000, 8200, 9000]) + out
        k = R.random() / max(self.p['faults'], 1e-9)
        if k < 0.05: out = out[:R.randrange(len(out) + 1)]
        elif k < 0.05 + self.p['garbage']:
            hi = 256 if self.p['hibyte'] else 128
            out = bytes(R.randrange(hi) for _ in range(R.randint(1, 12)))
        elif k < 0.07 + self.p['garbage']: out = b""
        if R.random() < 0.2:
            i = R.randrange(len(out) + 1)
            neg = bytes([255, R.choice([251, 252, 253, 253, 253, 254, 255, 241]), R.choice([1, 3, 6, 24, 31, 0, 99])][:R.choice([2, 3, 3, 3])])
            out = out[:i] + neg + out[i:]
        if R.random() < 0.04 * self.p['faults']:
            # a telnet sequence left dangling at the end of what the device says: if the connection drops before the next byte,
            # nothing of it may leak into the next connection
            out += R.choice([bytes([255]), bytes([255, 253]), bytes([255, 251])])
        return out

    naddr = 1          # the largest number of addresses a tcp device of the configuration has

    def connans(self):
        """the answers to the connect() calls of one pass: one digit per call of one device (0 connected at once, 1 in progress,
        2 failed at once), the last digit repeating; with several addresses per host the first ones often fail"""
        R = self.R
        r = R.random()
        one = '2' if r < self.p['pF6'] else ('0' if r < 0.3 else '1')
        if self.naddr <= 1: return one
        k = R.random()
        if k < 0.45: return one
        if k < 0.60: return '2' + one                                  # first address unreachable at once, the second answers
        if k < 0.70: return '22' + one
        if k < 0.76: return '2' * self.naddr                           # every address fails at once
        if k < 0.82: return '2' * (self.naddr - 1) + R.choice('01')    # only the last one answers
        return ''.join(R.choice('0112') for _ in range(R.randint(2, self.naddr + 2)))

    def soeans(self, fail):
        """the answers to getsockopt(SO_ERROR), one digit per call of one device (1 = the connect failed)"""
        R = self.R
        if self.naddr <= 1: return '1' if fail else '0'
        k = R.random()
        if k < 0.5: return '1' if fail else '0'
        if k < 0.65: return '10'                                       # the pending connect failed, the next address is fine
        if k < 0.75: return '110'
        if k < 0.85: return '1' * R.randint(1, self.naddr + 1)         # every address refuses
        return ''.join(R.choice('01') for _ in range(R.randint(1, self.naddr + 1)))


def multi_stats(obs, stats):
    """counters of the address walks of one pass (configurations with a multi-address host; one such device per configuration)"""
    ys = [l.split() for l in obs if l.startswith("Y ")]
    ncon = sum(1 for t in ys if t[1] == 'socket')
    if ncon >= 2: stats['multi-address: passes in which a device tried %d addresses' % min(ncon, 6)] += 1
    seq = [t[1] + (t[2] if t[1] in ('connect', 'soerr') else '') for t in ys if t[1] in ('socket', 'connect', 'soerr')]
    for i in range(len(seq) - 1):
        if seq[i] == 'soerr1' and seq[i + 1] == 'socket': stats['multi-address: SO_ERROR reports a failed connect, the walk goes on with the next address'] += 1
        if seq[i] == 'connect2' and seq[i + 1] == 'socket': stats['multi-address: connect() fails at once, the next address is tried'] += 1
    for l in obs:
        if l.startswith("O dev ") and " conn " in l:
            t = l.split(); cur = int(t[9]); cs = int(t[4])
            if cur >= 1: stats['multi-address: pass ends %s on address %d' % ('CONNECTED' if cs == 2 else 'CONNECTING', cur + 1)] += 1
            if cur == -1 and ncon >= 2: stats['multi-address: an attempt failed on every address (connection refused)'] += 1


class _Lines:
    """line reader over a pipe with a time-out (select on the descriptor, own buffer: Python's buffered readers would hide data
    from select)"""

    def __init__(self, f):
        self.fd = f.fileno(); self.buf = b''; self.eof = False

    def readline(self, timeout):
        import select
        while b'\n' not in self.buf and not self.eof:
            if not select.select([self.fd], [], [], timeout)[0]: return None
            chunk = os.read(self.fd, 1 << 16)
            if not chunk: self.eof = True
            self.buf += chunk
        if b'\n' in self.buf:
            l, self.buf = self.buf.split(b'\n', 1)
            return l.decode('latin1')
        l = self.buf.decode('latin1'); self.buf = b''
        return l if l else ''


def run_c(binary, conf, opgen, N, errpath):
    """drive the C harness: returns (process, configuration dump, c_op); c_op(op) sends one op and returns the lines of its answer
    ("DIED" as last element if the process died or did not answer within 90 s)"""
    p = subprocess.Popen([binary, conf], stdin=subprocess.PIPE, stdout=subprocess.PIPE, stderr=open(errpath, 'w'), bufsize=0,
                         env=dict(ASAN_ENV, ASAN_OPTIONS=ASAN_ENV['ASAN_OPTIONS'].replace('detect_leaks=0', 'detect_leaks=1')))
    rd = _Lines(p.stdout)
    dump = []
    while True:
        l = rd.readline(60.0)
        if l is None or (l == '' and rd.eof):
            raise BuildError('daemon harness died while reading its configuration: ' + open(errpath).read()[-1500:])
        if l == "READY": break
        dump.append(l)

    def c_op(op):
        try:
            p.stdin.write((op + "\n").encode())
        except (BrokenPipeError, OSError):
            return ["DIED"]
        res = []
        while True:
            # one pass of the real code never takes seconds: no answer within 90 s means it spins or blocks (a wedged daemon)
            l = rd.readline(90.0)
            if l is None:
                p.kill()
                open(errpath, 'a').write('\nHUNG: no answer to one pass within 90 s; the process was killed\n')
                res.append("DIED"); return res
            if l == '' and rd.eof:
                res.append("DIED"); return res
            if l == ".": return res
            res.append(l)
    return p, dump, c_op


def settle_exactfit(op, res):
    """exact-fit reads (rk 3): the op as recorded carries the bytes the kernel really handed out (the model has no ring layout)"""
    took3 = {}
    for l in res:
        if l.startswith("Y read "): t = l.split(); took3[int(t[2])] = int(t[3])
    t = op.split()
    for i in range(5, len(t)):
        f = t[i].split(":")
        if len(f) > 4 and f[2] == '3':
            n3 = max(0, took3.get(int(f[0]), 0)); raw = bytes.fromhex(f[3]) if f[3] != '-' else b''
            f[2] = '0'; f[3] = hx(raw[:n3])
            if not raw[:n3]: f[1] = str(int(f[1]) & ~1)
            t[i] = ":".join(f)
    return " ".join(t)


def simulate(seed, N, profile=None, conf='mixp', fixed_ops=None, world=None):
    """returns dict(dump, ops, couts (C side, per op), xs (regexec records per op), stats, died, stderr)"""
    binary = build()
    cpath = world.conf_path() if world else conf_path(conf)
    g = Gen(seed, profile)
    g.world = world
    g.naddr = world.naddr() if world else NADDR.get(conf, 1)
    R = g.R
    P = g.p
    errpath = os.path.join(tree_dir(), 'udmn.err.%d.%d' % (os.getpid(), seed))
    p, dump, c_op = run_c(binary, cpath, None, N, errpath)
    ops = []; couts = []; xsl = []
    stats = collections.Counter()
    live = {}; sendq = collections.defaultdict(bytes)
    now = 0; ND = world.nd if world else 2; conn = [0] * ND; dfd = [-1] * ND; dto = [False] * ND; pending = [b""] * ND
    died = False; qop = "Q"; last_tmo = None
    # A telnet storm with stalled writes on the tcp device (device 0 of `mixp`): for a stretch of passes (at least 18, and until the
    # real code's output buffer has stayed at its capacity) the device is never reported writable and every pass offers 4000 bytes of
    # `IAC DO ECHO` triples, each answered with `IAC WONT ECHO` queued in dev->to (cbuf, MAX_DEV_BUF = 65536, overwrite mode): the
    # answers pile up beyond 64 KiB and the oldest are overwritten.  Then, writes still stalled, the device says what it had pending
    # (the prompt the current script waits for), so that a `send` runs against the full buffer; then writes are allowed again.
    storm = None; STREAM = b"\xff\xfd\x01"
    stalled = {}
    dead = None          # a stretch in which every connect fails at once, the clock moves in seconds and no client asks for anything: the back-off table is walked to its end
    burst_done = set()   # client descriptors that had their pipelined burst (one per session: the unsent output must stay below 1 MiB)
    for it in range(N if fixed_ops is None else len(fixed_ops)):
        if fixed_ops is not None:
            op = fixed_ops[it]
        elif it == 0:
            op = "I 0 %s 0" % g.connans()
        else:
            if storm: now += R.choice([0, 0, 1000])          # the clock nearly stands still: no deadline passes during the storm
            elif dead: now += R.choice([300000, 1000000, 2000000, 5000000, 17000000, 40000000, 61000000])
            else: now += R.choice([0, 1000, 1000, 50000, 400000, 1000000, 2500000, 6000000] if R.random() < P['calm'] else [0, 1000, 1000, 50000, 400000])
            if dead is None and P.get('dead', 0.0) > 0 and not storm and it < N - 80 and R.random() < P['dead']:
                dead = dict(left=R.randint(40, 70)); stats['dead-device stretches (every connect fails at once, no requests)'] += 1
            elif dead:
                dead['left'] -= 1
                if dead['left'] <= 0: dead = None
            for fd, c in live.items():
                if dead:
                    # a request that needs a device resets that device's retry counter: only device-free lines during the stretch
                    if R.random() < 0.1 and len(sendq[fd]) < 300: sendq[fd] += R.choice([b"help\n", b"nodes\n", b"exprange\n", b"foo\n"])
                    continue
                if R.random() < 0.25 and len(sendq[fd]) < 300: sendq[fd] += g.clientline()
                if P.get('burst', 0.0) > 0 and fd not in burst_done and not c['quit'] and not sendq[fd] and R.random() < P['burst']:
                    # a client that pipelines hundreds of cheap requests and does not read: the replies (up to ~600 KB, below the
                    # 1 MiB of the output buffer) pile up unsent, then are drained in pieces
                    burst_done.add(fd); sendq[fd] += b"help\n" * R.choice([180, 250, 400]); stalled[fd] = R.randint(3, 8)
                    stats['pipelined bursts of requests from a client that does not read'] += 1
                if len(sendq[fd]) > 100000: stats['request lines of 128 KiB and more offered'] += 1
            acc = 0; r = R.random()
            if len(live) < P['maxclients'] and r < 0.15: acc = 1
            elif r < 0.16: acc = 2
            parts = []; dl_c = {}; dl_d = {}
            F = P['faults']
            for fd, c in live.items():
                rev = 0; rk = 0; data = b""; cap = 1 << 20
                if sendq[fd] and not c['quit'] and R.random() < 0.7:
                    n = R.choice([len(sendq[fd]), len(sendq[fd]), R.randint(1, len(sendq[fd]))]); n = min(n, 4000); data = sendq[fd][:n]; sendq[fd] = sendq[fd][n:]; rev |= 1
                if stalled.get(fd, 0) > 0:
                    stalled[fd] -= 1
                elif c['to'] and fd in burst_done and c.get('tolen', 0) > 20000:
                    rev |= 2; cap = 100000           # a big backlog is drained in big pieces (the simulated kernel takes at most 128 KiB per descriptor and pass)
                elif c['to'] and R.random() < 0.85:
                    rev |= 2; cap = R.choice([1 << 20, 1 << 20, 1 << 20, R.randint(1, 60), -2])
                r = R.random() / max(F, 1e-9)
                if r < 0.01: rev |= 1; rk = 2; sendq[fd] = data + sendq[fd]; data = b""
                elif r < 0.015: rev |= 1; rk = 1; sendq[fd] = data + sendq[fd]; data = b""
                elif r < 0.02: rev |= 4; rk = 2 if not data else 0
                elif r < 0.025: rev |= 8
                elif r < 0.03: rev |= 2; cap = -1
                if c['quit']: rev &= ~1
                if rev: parts.append("%d:%d:%d:%s:%d" % (fd, rev, rk, hx(data), cap))
                if (rev & 1) and data: dl_c[fd] = data
                elif data: sendq[fd] = data + sendq[fd]
            soe = '0'
            if storm is None and P.get('storm', 0.0) > 0 and not world and conf == 'mixp' and conn[0] == 2 and dfd[0] >= 0 and it < N - 30 and R.random() < P['storm']:
                storm = dict(phase='flood', n=0, off=0, full=0, reached=False, left=0, bytes=0)
                stats['telnet storms with stalled writes started'] += 1
            for di in range(ND):
                if dfd[di] >= 0:
                    rev = 0; rk = 0; data = b""; cap = 1 << 20; r = R.random() / max(F, 1e-9)
                    if conn[di] == 2 and r < 0.10 and R.random() > P['calm']: r = 0.5
                    if storm and di == 0 and conn[0] == 2:
                        # never POLLOUT, no fault; flood: the next 4000 bytes of the endless stream of triples; answer: what was pending
                        if storm['phase'] == 'flood': data = (STREAM * 1336)[storm['off']:storm['off'] + 4000]
                        elif pending[0]: data = pending[0][:4000]; pending[0] = pending[0][4000:]
                        rev = 1 if data else 0
                    elif conn[di] == 1:
                        if r < 0.7: rev = 2
                        elif r < 0.8: rev = 2; soe = g.soeans(R.random() < P['pF6'] * 5 * (3 if g.naddr > 1 else 1))
                        elif r < 0.9: rev = R.choice([4, 8, 12, 6, 10])
                        elif r < 0.95: rev = R.choice([1, 3])
                        else: rev = 2 if F < 1 else 0
                    elif conn[di] == 2:
                        if R.random() < P.get('exactfit', 0.01):
                            # the kernel holds exactly what the first read asks for (rk 3): cbuf's second read, for the wrapped part of
                            # its ring, finds nothing - harmless on a non-blocking descriptor
                            data = (pending[di] + bytes(R.choice(b"#=.z") for _ in range(8)) * 500)[:4000]; pending[di] = pending[di][4000:]; rev |= 1; rk = 3
                            stats['device reads that get exactly what the first read asks for'] += 1
                        elif pending[di] and R.random() < 0.8:
                            n = R.choice([len(pending[di]), len(pending[di]), R.randint(1, len(pending[di]))]); n = min(n, 4000); data = pending[di][:n]; pending[di] = pending[di][n:]; rev |= 1
                        if dto[di] and R.random() < 0.85:
                            rev |= 2
                            if R.random() < 0.15: cap = -2
                        if rk == 3: pass
                        elif r < 0.03: rev |= R.choice([4, 8, 16])
                        elif r < 0.06: rev |= 1; rk = R.choice([1, 2]); pending[di] = data + pending[di]; data = b""
                        elif r < 0.08: rev |= 2; cap = -1
                        elif r < 0.10: rev |= 2
                    else: rev = R.choice([0, 0, 0, 1, 2])
                    if (rev & 1) and rk == 0 and not data: rev &= ~1
                    if rev: parts.append("%d:%d:%d:%s:%d" % (dfd[di], rev, rk, hx(data), cap))
                    if (rev & 1) and data: dl_d[dfd[di]] = (di, data)
            hup = ""
            if R.random() < P.get('hup', 0.02):
                # SIGHUP (caught by a no-op handler) interrupts the sleep in poll d us after it began: xpoll() retries with what is
                # left of the time-out - also when the signal comes just as (or just after) the time-out runs out
                d = R.choice([last_tmo // 2, max(0, last_tmo - 300), last_tmo, last_tmo + R.choice([1, 50, 999, 1000, 2500])]) if last_tmo else R.choice([0, 1000, 300000])
                now += d; hup = " H%d" % d
                stats['sleeps interrupted by SIGHUP' + (' after the time-out had run out' if last_tmo and d > last_tmo else '')] += 1
            # how a coprocess that is reaped in this pass ended (raw wait status): killed by the daemon's SIGTERM, exited, or killed by
            # another signal (it crashed, was killed from outside)
            wst = ""
            if R.random() < 0.08: wst = " W%d" % R.choice([15, 0, 256, 9, 11, 139, 6]); stats['coprocess wait statuses other than the default offered'] += 1
            op = "P %d %d %s %s" % (now, acc, "2" if dead else g.connans(), soe) + "".join(" " + x for x in parts) + wst + hup
            if it == N - 1:
                # the run ends with a termination signal that arrives while the daemon sleeps in poll, together with everything this
                # pass would have made ready: the daemon must not look at any of it
                qop = "Q" + op[1:len(op) - len(hup)].replace(':-2', ':%d' % (1 << 20)); stats['signal passes with descriptors ready' if parts or acc else 'signal passes with nothing else ready'] += 1
                break
        res = c_op(op)
        if ':3:' in op and fixed_ops is None and it > 0: op = settle_exactfit(op, res)
        if ':-2' in op and fixed_ops is None:
            # "first piece only" capacities: record the op with the byte count the kernel really took (same behaviour on replay
            # and in the model, which has no ring layout)
            wrote = {}
            for l in res:
                if l.startswith("Y write "):
                    t = l.split(); wrote[int(t[2])] = len(t[3]) // 2 if t[3] != "-" else 0
            t = op.split()
            for i in range(5, len(t)):
                f = t[i].split(":")
                if len(f) > 4 and f[4] == '-2':
                    f[4] = str(wrote.get(int(f[0])) or (1 << 20)); t[i] = ":".join(f); stats['writes limited to the first piece offered'] += 1
            op = " ".join(t)
        ops.append(op)
        xs = [l for l in res if l.startswith("X ")]; obs = [l for l in res if not l.startswith("X ")]
        xsl.append(xs); couts.append(obs)
        if "DIED" in res:
            died = True
            break
        newlive = {}
        wfd = {dfd[i]: i for i in range(ND) if dfd[i] >= 0}
        if fixed_ops is None and it > 0:
            # the daemon takes what its buffer has room for: the rest is still in the kernel's queue
            took = {}
            for l in obs:
                if l.startswith("Y read "):
                    t = l.split(); took[int(t[2])] = int(t[3])
            for fd, data in dl_c.items():
                n = took.get(fd)
                if n is not None and 0 <= n < len(data): sendq[fd] = data[n:] + sendq[fd]; stats['client reads shorter than what was offered'] += 1
                elif n is None: sendq[fd] = data + sendq[fd]
            for fd, (di, data) in dl_d.items():
                n = took.get(fd)
                if storm and storm['phase'] == 'flood' and di == 0:
                    # the stream of triples goes on where the daemon stopped reading
                    if n is not None and n > 0: storm['off'] = (storm['off'] + n) % 3; storm['bytes'] += n
                    continue
                if n is not None and 0 <= n < len(data): pending[di] = data[n:] + pending[di]; stats['device reads shorter than what was offered'] += 1
                elif n is None: pending[di] = data + pending[di]
        for l in obs:
            if l.startswith("O tmo "): last_tmo = None if l.split()[2] == "none" else int(l.split()[2])
            if l.startswith("C "):
                t = l.split(); fd = int(t[2]); newlive[fd] = dict(id=int(t[1]), quit=t[3] == "1", pending=int(t[6]), to=t[8] != "-", tolen=len(t[8]) // 2)
            if l.startswith("O dev ") and l.split()[3] == "conn":
                t = l.split(); di = int(t[2]); newconn = int(t[4]); dfd[di] = int(t[7])
                if newconn == 2 and conn[di] != 2: pending[di] = (world.greeting(di) if world else b"hello\n0 vpc> ") if R.random() < 0.95 else b""
                if newconn != 2: pending[di] = b""
                conn[di] = newconn
            if l.startswith("O dev ") and l.split()[3] == "to": dto[int(l.split()[2])] = (l.split()[4] != "-")
            if l.startswith("Y write "):
                t = l.split(); fd = int(t[2]); w = bytes.fromhex(t[3]) if t[3] != "-" else b""
                if fd >= 2000:
                    if t[4] == "ok":
                        lines = [x for x in re.sub(rb"\xff[\xfb\xfc].", b"", w, flags=re.S).split(b"\n") if x and x[0] != 255]
                        if lines and fd in wfd: pending[wfd[fd]] += (world.devreply(g, wfd[fd], lines[-1] + b"\n", len(ops)) if world else g.devreply(lines[-1] + b"\n"))
                else:
                    if "BLOCKS" in l: stats['blocking write that cannot complete'] += 1
                    for ln in w.split(b"\r\n"):
                        if ln[:3].isdigit(): stats['code ' + ln[:3].decode()] += 1
            if l.startswith("Y "): stats['sys ' + l.split()[1]] += 1
            if ' queue' in l and ' 6:0' in l: stats['passes with a ping queued'] += 1
        if g.naddr > 1: multi_stats(obs, stats)
        for fd in list(live):
            if fd not in newlive: sendq.pop(fd, None)
        live = newlive
        if storm and fixed_ops is None:
            tolen = next((0 if l.split()[4] == "-" else len(l.split()[4]) // 2 for l in obs if l.startswith("O dev 0 to ")), 0)
            if conn[0] != 2 or dfd[0] < 0:
                stats['telnet storms ended by a disconnect'] += 1; storm = None
            elif storm['phase'] == 'flood':
                storm['n'] += 1
                storm['full'] = storm['full'] + 1 if tolen == 65536 else 0
                if storm['full'] >= 2 and not storm['reached']:
                    # the dump stays at the capacity while answers keep being queued: the oldest are being overwritten
                    storm['reached'] = True; stats['device output buffer overrun reached'] += 1
                if (storm['reached'] and storm['n'] >= 18 and storm['full'] >= 3) or storm['n'] >= 160:
                    if not storm['reached']: stats['telnet storms that did not reach the overrun'] += 1
                    # finish the triple the stream stopped in, then what the device had to say
                    pending[0] = (STREAM[storm['off']:] if storm['off'] else b"") + pending[0]
                    storm['phase'] = 'answer'; storm['left'] = R.randint(4, 8)
            else:
                if tolen == 65536 and any(l.startswith("O dev 0 to ") and l.endswith("0a") for l in obs): stats['passes with a send text queued in a full device output buffer'] += 1
                storm['left'] -= 1
                if storm['left'] <= 0: storm = None
    teardown = None
    if not died:
        res = c_op(qop)
        teardown = [l for l in res if not l.startswith("X ")]
    try:
        p.stdin.close()
    except Exception:
        pass
    p.wait()
    err = open(errpath).read()
    os.unlink(errpath)
    return dict(seed=seed, conf=conf, dump=dump, ops=ops, couts=couts, xs=xsl, stats=stats, died=died, stderr=err[-6000:], rc=p.returncode, teardown=teardown, qop=qop)


def simulate_steady(seed, cycles=42, nlines=8, world=None, conf='mixp'):
    """steady-state run for the live-heap ledger: the same cycle - a client connects, sends a fixed list of request lines one
    after the other (each awaited), quits; every device then drops its connection and is logged in again - is repeated with
    identical device answers; the harness reports the live heap at the end of every cycle (all queues empty, no client)"""
    binary = build()
    cpath = world.conf_path() if world else conf_path(conf)
    g = Gen(seed, dict(faults=0.0, garbage=0.0, fatal=0.0, quit=0.0)); g.world = world
    L = []
    while len(L) < nlines:
        l = g.clientline()
        if l.endswith(b"\n") and b"quit" not in l: L.append(l)
    errpath = os.path.join(tree_dir(), 'udmn.err.%d.%d.s' % (os.getpid(), seed))
    p, dump, c_op = run_c(binary, cpath, None, 0, errpath)
    ops = []; couts = []; xsl = []; stats = collections.Counter()
    ND = world.nd if world else 2
    S = dict(now=0, conn=[0] * ND, dfd=[-1] * ND, dto=[False] * ND, pending=[b""] * ND, logged=[0] * ND, qlen=[0] * ND, live={}, died=False, heap=None)

    def do(op):
        res = c_op(op); ops.append(op)
        xs = [l for l in res if l.startswith("X ")]; obs = [l for l in res if not l.startswith("X ")]
        xsl.append(xs); couts.append(obs)
        if "DIED" in res: S['died'] = True; return
        newlive = {}
        wfd = {S['dfd'][i]: i for i in range(ND) if S['dfd'][i] >= 0}
        for l in obs:
            t = l.split()
            if l.startswith("C "): newlive[int(t[2])] = dict(id=int(t[1]), quit=t[3] == "1", pending=int(t[6]), to=t[8] != "-", frm=t[9] != "-")
            elif l.startswith("I heap"): S['heap'] = int(t[2])
            elif l.startswith("O dev ") and t[3] == "conn":
                di = int(t[2]); newconn = int(t[4]); S['dfd'][di] = int(t[7]); S['logged'][di] = int(t[5])
                if newconn == 2 and S['conn'][di] != 2: S['pending'][di] = world.greeting(di) if world else b"hello\n0 vpc> "
                if newconn != 2: S['pending'][di] = b""
                S['conn'][di] = newconn
            elif l.startswith("O dev ") and t[3] == "to": S['dto'][int(t[2])] = (t[4] != "-")
            elif l.startswith("O dev ") and t[3] == "queue": S['qlen'][int(t[2])] = len(t) - 4
            elif l.startswith("Y write "):
                fd = int(t[2]); w = bytes.fromhex(t[3]) if t[3] != "-" else b""
                if fd >= 2000 and t[4] == "ok" and fd in wfd:
                    lines = [x for x in re.sub(rb"\xff[\xfb\xfc].", b"", w, flags=re.S).split(b"\n") if x and x[0] != 255]
                    if lines: S['pending'][wfd[fd]] += (world.devreply(g, wfd[fd], lines[-1] + b"\n", len(ops)) if world else g.devreply(lines[-1] + b"\n"))
                elif fd < 2000:
                    for ln in w.split(b"\r\n"):
                        if ln[:3].isdigit(): stats['code ' + ln[:3].decode()] += 1
        S['live'] = newlive

    def mkop(dt, acc=0, cdata=None, deveof=False):
        S['now'] += dt
        parts = []
        for fd, c in S['live'].items():
            rev = 2 if c['to'] else 0; data = b""
            if cdata is not None: rev |= 1; data = cdata
            if rev: parts.append("%d:%d:0:%s:%d" % (fd, rev, hx(data), 1 << 20))
        for di in range(ND):
            if S['dfd'][di] < 0: continue
            rev = 0; rk = 0; data = b""
            if S['conn'][di] == 1: rev = 2
            elif S['conn'][di] == 2:
                if deveof: rev = 1; rk = 2; S['pending'][di] = b""
                else:
                    if S['pending'][di]: data = S['pending'][di][:600]; S['pending'][di] = S['pending'][di][600:]; rev |= 1
                    if S['dto'][di]: rev |= 2
            if rev: parts.append("%d:%d:%d:%s:%d" % (S['dfd'][di], rev, rk, hx(data), 1 << 20))
        return "P %d %d 1 0" % (S['now'], acc) + "".join(" " + x for x in parts)

    def settled():
        return all(S['conn'][i] == 2 and S['logged'][i] and S['qlen'][i] == 0 and not S['pending'][i] and not S['dto'][i] for i in range(ND))

    def idle():
        return all(c['pending'] == -1 and not c['to'] and not c['frm'] for c in S['live'].values())

    heaps = []; marks = []
    do("I 0 1 0")
    for cyc in range(cycles):
        if S['died']: break
        g.R.seed(seed * 7919 + 13)               # identical device answers in every cycle
        k = 0
        while not settled() and k < 400 and not S['died']: do(mkop(500000)); k += 1
        do(mkop(1000, acc=1))
        for ln in L:
            if S['died'] or not S['live']: break
            do(mkop(1000, cdata=ln)); k = 0
            while not S['died'] and S['live'] and not (idle() and all(q == 0 for q in S['qlen'])) and k < 300: do(mkop(50000)); k += 1
            stats['steady: request lines answered'] += 1
        if S['live'] and not S['died']:
            do(mkop(1000, cdata=b"quit\n")); k = 0
            while S['live'] and k < 20 and not S['died']: do(mkop(1000)); k += 1
        if not S['died']:
            do(mkop(1000, deveof=True)); k = 0
            while not settled() and k < 400 and not S['died']: do(mkop(500000)); k += 1
            stats['steady: cycles ending settled'] += 1 if settled() and not S['live'] else 0
            heaps.append(S['heap']); marks.append(len(ops) - 1)
    teardown = None
    if not S['died']:
        res = c_op("Q"); teardown = [l for l in res if not l.startswith("X ")]
    try: p.stdin.close()
    except Exception: pass
    p.wait()
    err = open(errpath).read(); os.unlink(errpath)
    return dict(seed=seed, conf=conf, dump=dump, ops=ops, couts=couts, xs=xsl, stats=stats, died=S['died'], stderr=err[-6000:], rc=p.returncode, teardown=teardown,
                heaps=heaps, marks=marks, lines=[l.decode('latin1') for l in L])


def lean_side(sim):
    lean_in = list(sim['dump'])
    for op, xs in zip(sim['ops'], sim['xs']):
        lean_in += xs + [op]
    if sim.get('teardown') is not None: lean_in.append(sim.get('qop', 'Q'))
    r = subprocess.run([os.path.join(LEANBIN, 'dmdriver')], input="\n".join(lean_in) + "\n", capture_output=True, text=True)
    chunks = []; cur = []
    for l in r.stdout.split("\n"):
        if l == ".":
            chunks.append(cur); cur = []
        else: cur.append(l)
    if cur and any(cur): chunks.append(cur)
    return chunks


ORDER = {"accept": 0, "socket": 1, "socketpair": 1, "fork": 2, "connect": 2, "soerr": 3, "close": 4, "kill": 4, "waitpid": 4, "read": 5, "write": 5}


def canon(ls):
    ls = [l for l in ls if not l.startswith("I ")]      # harness-only identity lines
    ys = [l for l in ls if l.startswith("Y ")]

    def key(l):
        t = l.split()
        if t[1] in ("kill", "waitpid"): return (4, 100000 + int(t[2]), 0 if t[1] == "kill" else 1)
        return (ORDER.get(t[1], 9), int(t[2]) if t[1] in ("read", "write", "close") else 0, 0 if t[1] == "read" else 1)
    ys = sorted(ys, key=key)
    return sorted([l for l in ls if l.startswith("O interest")], key=lambda l: int(l.split()[2])) + [l for l in ls if l.startswith("O polltmo")] + ys + \
        [l for l in ls if not l.startswith("Y ") and not l.startswith("O interest") and not l.startswith("O polltmo")]


def death_class(stderr):
    if 'HUNG: no answer' in stderr: return 'hang'
    if 'SIGPIPE: write to a closed peer' in stderr: return 'killed by SIGPIPE (a write to a closed peer with the default disposition)'
    if 'AddressSanitizer' in stderr:
        import re
        m = re.search(r'ERROR: AddressSanitizer: (\S+)', stderr)
        fn = re.search(r'#\d+ 0x[0-9a-f]+ in (\w+) [^\n]*(?:powerman|liblsd|libcommon)', stderr)
        return 'asan:%s:%s' % (m.group(1) if m else '?', fn.group(1) if fn else '?')
    if 'runtime error' in stderr: return 'ubsan'
    if 'Assertion' in stderr or 'assertion' in stderr:
        import re
        m = re.search(r"(\w+\.c):\d+: (\w+): Assertion [`'](.*?)' failed", stderr)
        return 'assert:%s:%s:%s' % (m.group(1), m.group(2), m.group(3)) if m else 'assert'
    # err_exit: the last line the daemon wrote says why
    last = [l for l in stderr.strip().split('\n') if l.strip()][-1:] or ['']
    return 'exit' + (': ' + last[0][:120] if last[0] else '')


def compare(sim, chunks):
    """per-pass comparison; returns list of diffs (index, kind, detail)"""
    diffs = []
    for i, (op, co) in enumerate(zip(sim['ops'], sim['couts'])):
        le = chunks[i] if i < len(chunks) else ["<missing>"]
        if "DIED" in co:
            pred = [l for l in le if l.startswith("O ABORT") or l == "EXIT"]
            if not pred:
                diffs.append(dict(at=i, kind='death-not-predicted', death=death_class(sim['stderr']), stderr=sim['stderr'][-1500:], op=op[:400]))
            else:
                sim['stats']['death predicted: ' + pred[0]] += 1
            break
        a_, b_ = canon(co), canon(le)
        if a_ != b_ and len(a_) == len(b_):
            # A device write() that *fails* (EPIPE): cbuf_read_to_fd hands the kernel the queue in the pieces the ring has it in and
            # stops at the first failure, so the simulated kernel saw only the first piece; the model has no ring layout and shows
            # the whole queue as offered.  (Successful writes are compared byte for byte: both pieces are taken.  Since dev->to can
            # stand at its capacity, where the ring is wrapped nearly always, this case is no longer rare.)  Such a line agrees when
            # what the real code offered is a non-empty prefix of what the model offers.
            for k_, (x, y) in enumerate(zip(a_, b_)):
                if x != y and x.startswith("Y write ") and y.startswith("Y write ") and x.endswith(" E") and y.endswith(" E"):
                    tx, ty = x.split(), y.split()
                    if len(tx) == 5 and len(ty) == 5 and tx[2] == ty[2] and int(tx[2]) >= 2000 and tx[3] != "-" and ty[3].startswith(tx[3]) and len(ty[3]) // 2 > 1024:
                        a_[k_] = y; sim['stats']['failed device writes of a wrapped ring: first piece offered only'] += 1
        if a_ != b_:
            d = []
            for a, b in zip(a_ + [""] * (len(b_) - len(a_)), b_ + [""] * (len(a_) - len(b_))):
                if a != b: d.append(dict(c=a[:400], lean=b[:400]))
            kinds = sorted(set((x['c'] or x['lean']).split()[0] + ' ' + ((x['c'] or x['lean']).split() + [''])[1] for x in d))
            diffs.append(dict(at=i, kind='state-differs', lines=d[:6], classes=kinds, op=op[:400]))
            break   # after the first divergence the two sides stay apart
    td = sim.get('teardown')
    if td is not None and not diffs:
        n = len(sim['ops'])
        le = chunks[n] if n < len(chunks) else ['<missing>']
        if 'DIED' in td:
            diffs.append(dict(at=n - 1, kind='death-not-predicted', death='teardown: ' + death_class(sim['stderr']), stderr=sim['stderr'][-1500:], op='Q'))
        elif canon(td) != canon(le):
            diffs.append(dict(at=n - 1, kind='teardown-differs', lines=[dict(c=' | '.join(canon(td))[:600], lean=' | '.join(canon(le))[:600])], op='Q'))
    return diffs


# ---------------------------------------------------------------------------------------------------------------
# scheduled (non-adaptive) scenarios for paired runs (C05): the clients' whole behaviour and the clock are fixed in
# advance; device A (d1, the coprocess, nodes u*) answers what is written to it from its own PRNG; device B (d0, tcp,
# nodes t*) is either healthy or sick.  Nothing B does can reach A or an A-only client unless the daemon lets it.

def make_schedule(seed, N):
    R = random.Random(seed)
    now = 0
    sched = []
    nacc = 0
    clients = []          # per client: dict(kind, lines=[(pass offset, bytes)], accept pass)
    for it in range(1, N):
        now += R.choice([0, 1000, 1000, 50000, 400000, 1000000, 2500000] if R.random() < 0.3 else [0, 1000, 1000, 50000, 400000])
        acc = 0
        if nacc < 8 and R.random() < 0.06:
            acc = 1
            kind = R.choice(['A', 'A', 'mixed', 'B'])
            lines = []
            off = R.randint(1, 5)
            if kind == 'mixed':
                lines.append((off, ("%s %s\n" % (R.choice(COMS), R.choice(["t[0-7],u[0-3]", "t1,u1", "u[0-3],t[2-4]", "u2,t5"]))).encode()))
            else:
                if R.random() < 0.3:
                    lines.append((off, R.choice([b"telemetry\n", b"exprange\n"]))); off += R.randint(1, 4)
                for _ in range(R.randint(1, 6)):
                    tg = R.choice(["u%d" % R.randint(0, 3), "u[0-3]", "u[%d-%d]" % (R.randint(0, 1), R.randint(2, 3)), "u1,u3"]) if kind == 'A' else \
                        R.choice(["t%d" % R.randint(0, 7), "t[0-7]", "t[2-4]"])
                    lines.append((off, ("%s %s\n" % (R.choice(COMS), tg)).encode()))
                    off += R.randint(2, 60)
                if R.random() < 0.3: lines.append((off, b"quit\n"))
            clients.append(dict(kind=kind, accept=it, lines=lines, fd=1000 + nacc))
            nacc += 1
        sched.append(dict(now=now, acc=acc))
    return sched, clients


def simulate_sched(seed, N, sickB, conf='mixp'):
    binary = build()
    cpath = conf_path(conf)
    sched, clients = make_schedule(seed, N)
    g = Gen(seed + 1, dict(faults=0.0, garbage=0.0))      # device A: always well-behaved, own PRNG
    gB = Gen(seed + 2, dict(faults=0.0, garbage=0.0))
    RB = random.Random(seed + 3)
    RA = random.Random(seed + 4)        # how the healthy tcp device's answers are cut into segments and where telnet NOPs go
    tcpA = conf == 'tcp2'; afds = set()
    errpath = os.path.join(tree_dir(), 'udmn.err.%d.%d.%d' % (os.getpid(), seed, int(sickB)))
    p, dump, c_op = run_c(binary, cpath, None, N, errpath)
    ops = []; couts = []; xsl = []; stats = collections.Counter()
    ND = 2; conn = [0] * ND; dfd = [-1] * ND; dto = [False] * ND; pending = [b""] * ND
    died = False
    sick_mode = RB.choice(['silent', 'garbage', 'close', 'refuse', 'partial', 'flood']) if sickB else 'healthy'
    flooded = {}; garb = [0]
    for it in range(N):
        if it == 0:
            op = "I 0 %d 0" % (2 if sick_mode == 'refuse' and not tcpA else 1)
        else:
            s = sched[it - 1]
            parts = []
            for c in clients:
                if c['accept'] >= it: continue
                data = b"".join(b for off, b in c['lines'] if c['accept'] + off == it)
                rev = 2 | (1 if data else 0)
                parts.append("%d:%d:0:%s:%d" % (c['fd'], rev, hx(data), 1 << 20))
            con = 1; soe = 0
            if NADDR.get(conf, 1) > 1 and sick_mode != 'refuse':
                # B's host has several addresses (A is a coprocess: it makes no connect() call): per-call answers, B's own PRNG
                con = RB.choice(['1', '1', '0', '21', '221', '20', '2222']); soe = RB.choice(['0', '0', '0', '10', '110', '1'])
            for di in range(ND):
                if dfd[di] < 0: continue
                rev = 0; rk = 0; data = b""
                if di == 1:          # A: healthy (a coprocess, or with tcp2 a tcp device that answers in segments with telnet NOPs)
                    if conn[di] == 1: rev = 2
                    elif conn[di] == 2:
                        if pending[di]:
                            if tcpA:
                                n = RA.choice([len(pending[di]), RA.randint(1, len(pending[di])), RA.randint(1, len(pending[di]))])
                                data = pending[di][:n]; pending[di] = pending[di][n:]
                                if RA.random() < 0.3:
                                    k = RA.randrange(len(data) + 1); data = data[:k] + RA.choice([b"\xff\xf1", b"\xff\xfd\x03", b"\xff\xf1\xff\xf1"]) + data[k:]
                            elif RA.random() < 0.05:
                                # the kernel holds exactly what the first read asks for (rk 3): harmless on a non-blocking descriptor
                                data = (pending[di] + b"#" * 4000)[:4000]; pending[di] = pending[di][4000:]; rk = 3
                            else:
                                data = pending[di]; pending[di] = b""
                            rev |= 1
                        if dto[di]: rev |= 2
                else:                # B
                    if conn[di] == 1:
                        if sick_mode == 'refuse':
                            # the kernel's answers are per pass, not per device: never let B's refusal fall into a pass in which A connects
                            if tcpA and conn[1] == 1: rev = 0
                            else: rev = 2; soe = 1
                        else: rev = 2
                    elif conn[di] == 2:
                        if dto[di]: rev |= 2
                        if sick_mode == 'healthy':
                            if pending[di]: data = pending[di]; pending[di] = b""; rev |= 1
                        elif sick_mode == 'silent': pending[di] = b""
                        elif sick_mode == 'garbage':
                            if RB.random() < 0.5 and garb[0] < 700: data = bytes(RB.randrange(1, 128) for _ in range(RB.randint(1, 20))); rev |= 1; garb[0] += len(data)
                            pending[di] = b""
                        elif sick_mode == 'partial':
                            if pending[di]: data = pending[di][:max(1, len(pending[di]) // 2)]; pending[di] = b""; rev |= 1
                        elif sick_mode == 'flood':
                            # one burst per connection, below the device buffer's initial size (the model has no cbuf sizing yet)
                            if flooded.get(dfd[di]) is None: data = b"x" * 800; rev |= 1; flooded[dfd[di]] = True
                            pending[di] = b""
                        elif sick_mode == 'close':
                            if pending[di] or RB.random() < 0.1: rev |= 1; rk = 2; pending[di] = b""
                if sick_mode == 'refuse' and di == 0 and not tcpA: con = 2
                if (rev & 1) and rk == 0 and not data: rev &= ~1
                if rev: parts.append("%d:%d:%d:%s:%d" % (dfd[di], rev, rk, hx(data), 1 << 20))
            op = "P %d %d %s %s" % (s['now'], s['acc'], con, soe) + "".join(" " + x for x in parts)
        res = c_op(op)
        if ':3:' in op: op = settle_exactfit(op, res)
        ops.append(op)
        xs = [l for l in res if l.startswith("X ")]; obs = [l for l in res if not l.startswith("X ")]
        xsl.append(xs); couts.append(obs)
        if "DIED" in res:
            died = True; break
        wfd = {dfd[i]: i for i in range(ND) if dfd[i] >= 0}
        for l in obs:
            if l.startswith("O dev ") and l.split()[3] == "conn":
                t = l.split(); di = int(t[2]); newconn = int(t[4]); dfd[di] = int(t[7])
                if di == 1 and dfd[di] >= 0: afds.add(dfd[di])
                if newconn == 2 and conn[di] != 2: pending[di] = b"hello\n0 vpc> "
                if newconn != 2:
                    pending[di] = b""
                    if di == 0: garb[0] = 0
                conn[di] = newconn
            if l.startswith("O dev ") and l.split()[3] == "to": dto[int(l.split()[2])] = (l.split()[4] != "-")
            if l.startswith("Y write "):
                t = l.split(); fd = int(t[2]); w = bytes.fromhex(t[3]) if t[3] != "-" else b""
                if fd >= 2000 and t[4] == "ok" and fd in wfd:
                    lines = [x for x in re.sub(rb"\xff[\xfb\xfc].", b"", w, flags=re.S).split(b"\n") if x and x[0] != 255]
                    if lines: pending[wfd[fd]] += (g if wfd[fd] == 1 else gB).devreply(lines[-1] + b"\n")
            if l.startswith("Y "): stats['sys ' + l.split()[1]] += 1
        if NADDR.get(conf, 1) > 1: multi_stats(obs, stats)
    teardown = None
    if not died:
        res = c_op("Q")
        teardown = [l for l in res if not l.startswith("X ")]
    try: p.stdin.close()
    except Exception: pass
    p.wait()
    err = open(errpath).read(); os.unlink(errpath)
    return dict(seed=seed, conf=conf, dump=dump, ops=ops, couts=couts, xs=xsl, stats=stats, died=died, stderr=err[-6000:], rc=p.returncode, clients=clients, sick_mode=sick_mode, teardown=teardown, afds=afds)


# ---------------------------------------------------------------------------------------------------------------
# generated "marker" configurations: every script is `send "K<kind> %s\n" expect "ok\n"` (queries capture one state per
# plug), so the bytes a device receives decode exactly to (script kind, plug set); the script-variant mix (singlet / ranged /
# all) per command, the plug counts and the unused plugs are drawn per run.

POWER_BASE = {7: ('on', True, True), 10: ('off', True, True), 13: ('cycle', True, True), 16: ('reset', True, True), 23: ('beacon_on', True, False), 25: ('beacon_off', True, False)}
QUERY_BASE = {2: 'status', 19: 'status_temp', 21: 'status_beacon'}
KIND2BASE = {}
for b_ in POWER_BASE: KIND2BASE[b_] = (b_, 's'); KIND2BASE[b_ + 1] = (b_, 'r')
for b_ in (7, 10, 13, 16): KIND2BASE[b_ + 2] = (b_, 'a')
for b_ in QUERY_BASE: KIND2BASE[b_] = (b_, 's'); KIND2BASE[b_ + 1] = (b_, 'a')
CLIENT_VERB = {7: 'on', 10: 'off', 13: 'cycle', 16: 'reset', 23: 'flash', 25: 'unflash', 2: 'status', 19: 'temp', 21: 'beacon'}


class MarkerWorld:
    def __init__(self, seed):
        R = random.Random(seed * 7 + 1)
        self.seed = seed
        self.nd = R.randint(2, 3)
        self.devs = []
        for i in range(self.nd):
            n = R.randint(2, 5)
            plugs = [str(k + 1) for k in range(n)]
            letter = 'abc'[i]
            node = {}
            for k, pl in enumerate(plugs):
                node[pl] = None if R.random() < 0.25 else '%s%d' % (letter, k)
            if not any(node.values()): node[plugs[0]] = letter + '0'
            has = set()
            for b, (nm, rng, al) in POWER_BASE.items():
                pat = R.choice(['s', 's', 'r', 'a', 'sr', 'sa', 'ra', 'sra', 'sra', ''])
                if 's' in pat: has.add(b)
                if 'r' in pat: has.add(b + 1)
                if 'a' in pat and al: has.add(b + 2)
            for b in QUERY_BASE:
                pat = R.choice(['s', 'a', 'sa', 'sa', ''] if b != 2 else ['s', 'a', 'sa', 'sa'])
                if 's' in pat: has.add(b)
                if 'a' in pat: has.add(b + 1)
            self.devs.append(dict(name='d%d' % i, plugs=plugs, node=node, has=has, tcp=(i == 0)))
        # the tcp device's host: one address, or a name the harness's resolver gives 2..4 addresses (own PRNG: the rest of the world
        # is what it was)
        for d in self.devs: d['host'] = random.Random(seed * 7 + 2).choice(['127.0.0.1', '127.0.0.1', 'multi2', 'multi3', 'multi4']) if d['tcp'] else None
        self.node2dev = {}
        for i, d in enumerate(self.devs):
            for pl, nd in d['node'].items():
                if nd: self.node2dev[nd.encode()] = (i, pl.encode())
        self.answers = []        # (op index, dev, plug, state text) ground truth of what the devices answered

    def conf_text(self):
        names = {7: 'on', 8: 'on_ranged', 9: 'on_all', 10: 'off', 11: 'off_ranged', 12: 'off_all', 13: 'cycle', 14: 'cycle_ranged', 15: 'cycle_all', 16: 'reset', 17: 'reset_ranged', 18: 'reset_all',
                 23: 'beacon_on', 24: 'beacon_on_ranged', 25: 'beacon_off', 26: 'beacon_off_ranged', 2: 'status', 3: 'status_all', 19: 'status_temp', 20: 'status_temp_all', 21: 'status_beacon', 22: 'status_beacon_all'}
        t = ''
        for i, d in enumerate(self.devs):
            t += 'specification "g%d" {\n  timeout 5\n  plug name { %s }\n  script login { send "L\\n" expect "ok\\n" }\n' % (i, ' '.join('"%s"' % p for p in d['plugs']))
            for k in sorted(d['has']):
                base, var = KIND2BASE[k]
                arg = '*' if var == 'a' else '%s'
                if base in QUERY_BASE:
                    cap = 'expect "s([0-9]+)=([a-z0-9]+)\\n" setplugstate $1 $2 on="^on$" off="^off$"' if base != 19 else 'expect "s([0-9]+)=([a-z0-9]+)\\n" setplugstate $1 $2'
                    if var == 'a' and (self.seed + k) % 2 == 0:
                        # one exchange per mapped node: `foreachnode` must visit the mapped plugs only, each once, in plug order
                        body = 'foreachnode { send "K%d %%s\\n" %s expect "ok\\n" }' % (k, cap)
                    else:
                        body = 'send "K%d %s\\n" %s expect "ok\\n"' % (k, arg, cap if var == 's' else 'foreachnode { %s }' % cap)
                elif var == 'r' and (self.seed + k) % 3 == 0:
                    # per-plug sends inside a ranged script: `foreachplug` must visit exactly the targeted plugs
                    body = 'foreachplug { send "K%d %%s\\n" expect "ok\\n" }' % k
                else:
                    body = 'send "K%d %s\\n" expect "ok\\n"' % (k, arg)
                t += '  script %s { %s }\n' % (names[k], body)
            t += '}\n'
        for i, d in enumerate(self.devs):
            t += 'device "%s" "g%d" "%s"\n' % (d['name'], i, '%s:%d' % (d['host'], 11000 + i) if d['tcp'] else '/bin/true |&')
        for i, d in enumerate(self.devs):
            for pl in d['plugs']:
                if d['node'][pl]: t += 'node "%s" "%s" "%s"\n' % (d['node'][pl], d['name'], pl)
        return t

    def naddr(self):
        return max([int(d['host'][5:]) for d in self.devs if d['tcp'] and d['host'].startswith('multi')] + [1])

    def conf_path(self):
        p = os.path.join(tree_dir(), 'marker-%d.conf' % self.seed)
        if not os.path.exists(p):
            tmp = p + '.tmp%d' % os.getpid()
            with open(tmp, 'w') as f: f.write(self.conf_text())
            os.rename(tmp, p)
        return p

    def all_nodes(self, di=None):
        return [nd for i, d in enumerate(self.devs) if di is None or i == di for pl in d['plugs'] for nd in [d['node'][pl]] if nd]

    def target(self, R):
        r = R.random()
        nodes = self.all_nodes()
        if r < 0.25: return R.choice(nodes)
        di = R.randrange(self.nd); dn = self.all_nodes(di)
        if r < 0.45: return ','.join(dn)                                   # every mapped node of one device
        if r < 0.65: return ','.join(R.sample(dn, R.randint(1, len(dn))))  # a subset of one device
        if r < 0.85: return ','.join(R.sample(nodes, R.randint(1, len(nodes))))   # across devices
        if r < 0.92: return ','.join(nodes)
        if r < 0.96:
            x = R.choice(nodes); return '%s,%s,%s' % (x, R.choice(nodes), x)      # a duplicate
        return R.choice(nodes) + ',zz9'

    def greeting(self, di):
        return b''

    def devreply(self, g, di, sent, opi):
        R = g.R
        d = self.devs[di]
        out = b''
        m = re.match(rb'^K(\d+) (\S+)\n$', sent)
        if m and int(m.group(1)) in KIND2BASE and KIND2BASE[int(m.group(1))][0] in QUERY_BASE:
            arg = m.group(2)
            import preds
            try: plugs = [p.encode() for p in d['plugs'] if d['node'][p]] if arg == b'*' else (preds.expand_hl(arg) if b'[' in arg else [arg])
            except Exception: plugs = []
            for pl in plugs:
                stt = R.choice([b'on', b'off', b'x', b'on']) if KIND2BASE[int(m.group(1))][0] != 19 else str(R.randint(60, 90)).encode()
                out += b's' + pl + b'=' + stt + b'\n'
                self.answers.append((opi, di, pl, stt))
        out += b'ok\n'
        k = R.random() / max(g.p['faults'], 1e-9)
        if k < 0.05: out = out[:R.randrange(len(out) + 1)]
        elif k < 0.05 + g.p['garbage']: out = bytes(R.randrange(256) for _ in range(R.randint(1, 12)))
        elif k < 0.07 + g.p['garbage']: out = b''
        if d['tcp'] and R.random() < 0.15:
            i = R.randrange(len(out) + 1)
            out = out[:i] + bytes([255, R.choice([251, 253, 253, 254]), R.choice([1, 3, 24, 99])]) + out[i:]
        return out


# ---------------------------------------------------------------------------------------------------------------
# the id-wrap scenario (C11, finding F17): one session stays connected while the client id sequence comes round

def simulate_idwrap(wrap, conf='mixp'):
    """session A connects (id 1) and stays; the id sequence is moved to wrap-2 (`J`: as if that many connections had come and
    gone); four more sessions connect.  Returns the sim dict; not compared with the model (whose counter is unbounded)."""
    binary = build()
    cpath = conf_path(conf)
    errpath = os.path.join(tree_dir(), 'udmn.err.idwrap.%d' % os.getpid())
    p, dump, c_op = run_c(binary, cpath, None, 0, errpath)
    ops = ["I 0 0 0", "P 1000 1 0 0", "J %d" % (wrap - 2)] + ["P %d 1 0 0" % (2000 + 1000 * k) for k in range(4)] + ["P 9000 0 0 0"]
    couts = []; xsl = []; sent = []; died = False
    pend = None
    for op in ops:
        if op.startswith("J "):
            p.stdin.write((op + "\n").encode()); continue      # no answer: it is consumed together with the next op
        res = c_op(op)
        sent.append(op); xsl.append([l for l in res if l.startswith("X ")]); couts.append([l for l in res if not l.startswith("X ")])
        if "DIED" in res: died = True; break
    try: p.stdin.close()
    except Exception: pass
    p.wait()
    err = open(errpath).read(); os.unlink(errpath)
    return dict(seed=0, conf=conf, dump=dump, ops=sent, couts=couts, xs=xsl, stats=collections.Counter(), died=died, stderr=err[-4000:], rc=p.returncode, teardown=None, wrap=wrap)


# ---------------------------------------------------------------------------------------------------------------
# `powermand --stdio`: one client on two descriptors (input 1000, output 1001), no listener; the daemon leaves its loop when that
# client is destroyed.  Non-adaptive schedule; the run ends with the daemon's own teardown.

STDIO_IN, STDIO_OUT = 1000, 1001
STDIO_CMDS = [b'help', b'nodes', b'device', b'version', b'telemetry', b'exprange', b'status t1', b'status', b'on u[0-1]', b'bogus', b'client x']


def stdio_schedule(seed, N, faults=0.0):
    """ops of one run; `clean` = no fault was injected (then the only way the client ends is its own `quit`)"""
    rng = random.Random(seed * 7919 + 17)
    ops = ["I 0 0 0"]; clean = True; now = 0
    quit_at = rng.randrange(2, max(3, N))
    sig_at = rng.randrange(1, N) if rng.random() < 0.2 else -1
    # requests that need a device stay "in progress" unless the device answers (it does not in this schedule): one run in four has them
    cmds = STDIO_CMDS if rng.random() < 0.25 else [c for c in STDIO_CMDS if not (c.startswith(b'status') or c.startswith(b'on '))]
    for i in range(N + 40):
        now += rng.choice([100, 1000, 1000, 20000])
        evs = []
        # input
        if i == quit_at or (i > quit_at and i % 8 == 0):
            # a burst of requests in one read, the last of them `quit`: everything they produce is queued when the client goes
            lines = [rng.choice(STDIO_CMDS[:6]) for _ in range(rng.choice([0, 1, 5, 20, 60]))] + [b'quit']
            data = b''.join(l + rng.choice([b'\n', b'\r\n']) for l in lines)[:4000]
            evs.append("%d:1:0:%s:0" % (STDIO_IN, hx(data)))
        elif i < quit_at and rng.random() < 0.6:
            lines = [rng.choice(cmds) for _ in range(rng.choice([1, 1, 2, 8]))]
            data = b''.join(l + rng.choice([b'\n', b'\r\n']) for l in lines)
            if rng.random() < 0.2: data = data[:rng.randrange(1, len(data) + 1)]     # a request split across reads
            evs.append("%d:1:0:%s:0" % (STDIO_IN, hx(data)))
        elif rng.random() < faults:
            clean = False
            evs.append("%d:%d:%d:-:0" % (STDIO_IN, rng.choice([1, 4, 8, 16, 5]), rng.choice([0, 1, 2])))
        # output: the reader is slower than the daemon most of the time
        r = rng.random()
        if r < faults / 2:
            clean = False
            evs.append("%d:%d:0:-:%d" % (STDIO_OUT, rng.choice([4, 8, 16, 2, 6]), rng.choice([-1, 0])))
        else:
            # the capacity is stated in every pass (the final flush of `quit` writes whether or not poll reported room)
            cap = rng.choice([0, 1, 7, 64, 300, 1024, 4096, 65536, 1 << 20])
            evs.append("%d:%d:0:-:%d" % (STDIO_OUT, 2 if (r < 0.85 and cap > 0) else 0, cap))
        if sig_at == i:
            # SIGTERM while the client is being served: the pass ends in the teardown, whatever poll would have reported
            clean = False
            ops.append("Q %d 0 0 0 %s" % (now, " ".join(evs))); break
        ops.append("P %d 0 0 0 %s" % (now, " ".join(evs)))
    return ops, clean


def simulate_stdio(seed, N, faults=0.0, fixed_ops=None):
    binary = build()
    cpath = conf_path('mixp')
    errpath = os.path.join(tree_dir(), 'udmn.err.stdio.%d.%d' % (os.getpid(), seed))
    p = subprocess.Popen([binary, cpath, 'stdio'], stdin=subprocess.PIPE, stdout=subprocess.PIPE, stderr=open(errpath, 'w'), bufsize=0,
                         env=dict(ASAN_ENV, ASAN_OPTIONS=ASAN_ENV['ASAN_OPTIONS'].replace('detect_leaks=0', 'detect_leaks=1')))
    rd = _Lines(p.stdout); dump = []
    while True:
        l = rd.readline(60.0)
        if l is None or (l == '' and rd.eof):
            raise BuildError('daemon harness (stdio) died while reading its configuration: ' + open(errpath).read()[-1500:])
        if l == "READY": break
        dump.append(l)
    if fixed_ops is not None: ops, clean = fixed_ops, False
    else: ops, clean = stdio_schedule(seed, N, faults)
    couts = []; xsl = []; sent = []; died = False; done = False
    for op in ops:
        try: p.stdin.write((op + "\n").encode())
        except (BrokenPipeError, OSError): died = True; break
        res = []
        while True:
            l = rd.readline(90.0)
            if l is None: p.kill(); res.append("DIED"); break
            if l == '' and rd.eof: res.append("DIED"); break
            if l == ".": break
            res.append(l)
        sent.append(op); xsl.append([l for l in res if l.startswith("X ")]); couts.append([l for l in res if not l.startswith("X ")])
        if "DIED" in res: died = True; break
        if "O teardown" in res: done = True; break
    try: p.stdin.close()
    except Exception: pass
    p.wait()
    err = open(errpath).read(); os.unlink(errpath)
    if done and p.returncode != 0: died = True; couts[-1].append("DIED")      # e.g. the leak check at exit
    return dict(seed=seed, conf='mixp', dump=dump, ops=sent, couts=couts, xs=xsl, stats=collections.Counter(), died=died, stderr=err[-4000:],
                rc=p.returncode, teardown=None, done=done, clean=clean, N=N, faults=faults)
